#!/bin/bash
# MANIFEST.setup_cmd: offline build of the harness from files on disk.
set -e
cd "$(dirname "${BASH_SOURCE[0]}")"
./check build
