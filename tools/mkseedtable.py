#!/usr/bin/env python3
"""Prints the markdown table of seeded changes for DESIGN.md section 11 from seeded/*/meta.json."""
import json, glob, os
ROOT = os.path.dirname(os.path.dirname(os.path.abspath(__file__)))
import re
def order(mp):
    k = os.path.basename(os.path.dirname(mp)); m = re.match(r"C(\d+)-m(\d+)", k); return (int(m.group(1)), int(m.group(2)))
rows = [json.load(open(mp)) for mp in sorted(glob.glob(os.path.join(ROOT, "seeded", "C*-m*", "meta.json")), key=order)]
print("| Seeded change | What it does | Caught by (quick tier; **own property** in bold) | Ran and stayed green |")
print("|---|---|---|---|")
own = other_only = missed = 0
for m in rows:
    s = m["summary"].replace("|", "\\|")
    s = s.split(" - ", 1)[1] if " - " in s[:14] else s
    if len(s) > 200:
        s = s[:197] + "..."
    caught = [f"**{c}**" if c == m["breaks_property"] else c for c in m["caught_by"]]
    inc = (" (inconclusive: " + ", ".join(m["inconclusive"]) + ")") if m.get("inconclusive") else ""
    note = (" **[" + m["note"] + "]**") if m.get("note") else ""
    print(f"| `{m['id']}` | {s}{note} | {', '.join(caught) or '-'}{inc} | {', '.join(m['not_caught_by']) or '-'} |")
    if m["breaks_property"] in m["caught_by"]:
        own += 1
    elif m["caught_by"]:
        other_only += 1
    else:
        missed += 1
print()
print(f"{len(rows)} seeded changes: {own} caught by the check of their own property, {other_only} only by a neighbouring check, {missed} by none of the checks run.")
