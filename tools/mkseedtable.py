#!/usr/bin/env python3
"""Prints the markdown table of seeded changes for DESIGN.md section 11 from seeded/*/meta.json."""
import json, glob, os
ROOT = os.path.dirname(os.path.dirname(os.path.abspath(__file__)))
print("| Seeded change | What it does / needs | Caught by (quick) | Not caught by (ran, stayed green) |")
print("|---|---|---|---|")
for mp in sorted(glob.glob(os.path.join(ROOT, "seeded", "C*-m*", "meta.json"))):
    m = json.load(open(mp))
    s = m["summary"].replace("|", "\\|")
    if len(s) > 230: s = s[:227] + "..."
    inc = (" (inconclusive: " + ", ".join(m["inconclusive"]) + ")") if m.get("inconclusive") else ""
    print(f"| `{m['id']}` | {s} | {', '.join(m['caught_by']) or '-'}{inc} | {', '.join(m['not_caught_by']) or '-'} |")
