#!/usr/bin/env python3
"""Writes seeded/<id>-mN/meta.json from the sub-agent README, my verification log and the catch matrix logs."""
import json, os, re, sys, glob
ROOT = os.path.dirname(os.path.dirname(os.path.abspath(__file__)))
OUT = "/tmp/wt/out"
matrix = {}
for log in glob.glob("/tmp/wt/matrix*.log"):
    for line in open(log):
        m = re.match(r"RESULT /tmp/wt/out/(C\d+)/(m\d):(.*)", line.strip())
        if m:
            key = f"{m.group(1)}-{m.group(2)}"
            for tok in m.group(3).split():
                c, rc = tok.split("=")
                matrix.setdefault(key, {})[c] = int(rc)
extra = json.load(open(os.path.join(ROOT, "seeded", "extra_runs.json"))) if os.path.exists(os.path.join(ROOT, "seeded", "extra_runs.json")) else {}
for k, v in extra.items():
    matrix.setdefault(k, {}).update(v)
for d in sorted(glob.glob(os.path.join(ROOT, "seeded", "C*-m*"))):
    key = os.path.basename(d)
    pid, m = key.split("-")
    readme = open(os.path.join(d, "AGENT_README.md")).read() if os.path.exists(os.path.join(d, "AGENT_README.md")) else ""
    title = readme.strip().splitlines()[0].lstrip("# ").strip() if readme.strip() else key
    ver = ""
    vf = os.path.join(OUT, pid, "verify.txt")
    if os.path.exists(vf):
        for line in open(vf):
            if line.startswith(f"{pid} {m} "):
                ver = line.strip().split(" ", 2)[2]
    old = {}
    mp = os.path.join(d, "meta.json")
    if os.path.exists(mp):
        old = json.load(open(mp))
    res = matrix.get(key, old.get("checks_run", {}))
    meta = {
        "id": key,
        "breaks_property": pid,
        "summary": old.get("summary", title),
        "needs_to_manifest": old.get("needs_to_manifest", "see AGENT_README.md (written by the sub-agent that produced the change)"),
        "origin": "fresh sub-agent given only the property text and a scratch worktree of /repo",
        "confirmed_by_me": ver or old.get("confirmed_by_me", ""),
        "confirmation_cmd": "tools/verify_seed.sh <scratch worktree> seeded/%s  (demo without patch / repository suite with patch / demo with patch)" % key,
        "checks_run": res,
        "caught_by": sorted([c for c, rc in res.items() if rc == 1]),
        "not_caught_by": sorted([c for c, rc in res.items() if rc == 0]),
        "inconclusive": sorted([c for c, rc in res.items() if rc not in (0, 1)]),
        "run_cmd": "tools/seedrun.sh seeded/%s <checks>   (git -C /repo apply; ./check Cxx quick; git -C /repo checkout -- .)" % key,
    }
    json.dump(meta, open(mp, "w"), indent=1)
    print(key, "caught by", meta["caught_by"], "missed by", meta["not_caught_by"], meta["inconclusive"])
