#!/usr/bin/env python3
"""Writes seeded/<id>-mN/meta.json from the sub-agent's README, my confirmation logs and a catch-matrix log.

    tools/mkseedmeta.py [matrix log ...]      (default: seeded/matrix_logs/*.log in name order; later logs override)

The matrix log is what tools/seedrun.sh printed for every seeded change (applied to /repo, quick checks
run, reverted). Confirmation logs (tools/verify_seed.sh) are looked up under /tmp/wt/out/<id>/verify*.txt;
when the scratch area is gone the values already stored in meta.json are kept."""
import json, os, re, sys, glob

ROOT = os.path.dirname(os.path.dirname(os.path.abspath(__file__)))
OUT = "/tmp/wt/out"
logs = sys.argv[1:] or sorted(glob.glob(os.path.join(ROOT, "seeded", "matrix_logs", "*.log")))
matrix, observed = {}, {}
for log in logs:
    if not os.path.exists(log):
        continue
    for line in open(log, errors="replace"):
        line = line.rstrip("\n")
        m = re.match(r"RESULT (?:/tmp/wt/out/|seeded/)(C\d+)[/-](m\d+):(.*)", line.strip())
        if m:
            key = f"{m.group(1)}-{m.group(2)}"
            for tok in m.group(3).split():
                c, rc = tok.split("=")
                matrix.setdefault(key, {})[c] = int(rc)
            continue
        m = re.match(r"\s*\[(C\d+-m\d+)\]\s+(C\d+) exit=1 failure: (?:sig=(\S+) :: )?(.*)", line)
        if m:
            observed.setdefault(m.group(1), {})[m.group(2)] = (m.group(3) or m.group(4))[:160]

WAVE = {"m1": "1 (plain)", "m2": "1 (plain)", "m3": "2 (needs something specific)", "m4": "2 (needs something specific)", "m5": "3 (adversarial: told what kind of harness to evade)", "m6": "3 (adversarial: told what kind of harness to evade)", "m7": "4 (adversarial: told also what round 3 added, hash collisions and 4 GiB inputs excluded)", "m8": "4 (adversarial: told also what round 3 added, hash collisions and 4 GiB inputs excluded)", "m9": "5 (adversarial, 6 properties: told also what round 4 added)", "m10": "5 (adversarial, 6 properties: told also what round 4 added)", "m11": "6a (plain: property text only, one change per property, 12 properties)", "m13": "6c (adversarial, 6 properties, 8-minute budget: told also what round 6b added)", "m12": "6b (adversarial: told everything of DESIGN.md 10.2-10.4 in general terms, 12 properties)"}

NOTES = {
    "C01-m5": "NOT CAUGHT, stated limit (DESIGN.md 6): wrong verdict only on a 32-bit fingerprint collision with the previously accepted input",
    "C09-m5": "NOT CAUGHT, stated limit (DESIGN.md 6): normalisation skipped only on a 32-bit fingerprint collision with the previous result",
    "C15-m5": "NOT CAUGHT, stated limit (DESIGN.md 6): segments equated only on a 32-bit fingerprint collision",
    "C09-m6": "quick tier cannot reach it (needs an input of 4 GiB); caught by the THOROUGH tier of C09 (one path beyond 4 GiB per family; confirmed by replaying that case against the change: sig big:normalized_segments)",
    "C05-m7": "quick tier cannot reach it (needs a buffer above 16 MiB); caught by the THOROUGH tier of C05 (17 MiB+5 / 33 MiB+1 values; confirmed by replaying that case against the change: sig set_query:query-differs)",
    "C20-m5": "not a violation of C20 as stated: normalized_segments() is not among the accessors the statement lists and allocates by design beyond 16 live segments; the checks do not constrain it",
    "C07-m12": "MISSED at first contact (the HostCase near miss skipped IP-literals); caught since HostCase applies inside '[...]' too (DESIGN.md 10.5)",
    "C09-m12": "MISSED at first contact (no internal iteration: rev().collect() goes through next_back, not rfold); caught since fold/rfold/try_fold/try_rfold/for_each are read on every case (DESIGN.md 10.5)",
    "C10-m12": "MISSED at first contact (the unsafe public constructor iri::PathMut::new was never called); caught since every embedded history is replayed through it on a plain Vec<u8> (DESIGN.md 10.5)",
    "C14-m12": "MISSED at first contact (only text tokens were offered to Deserialize); caught since ~50 non-text tokens per case are offered to every owned type (DESIGN.md 10.5)",
    "C13-m12": "an ORDER mistake on one cross-type route (UriRefBuf ? &Uri): C08's cross-type block is where it belongs and catches it; C13's statement (embedding, conversions) is not violated by it",
    "C19-m12": "the decoded views are wrong because RiRef::suffix hands back the wrong query/fragment: that is C16's subject (caught there); C19's own views of the value's real components stay faithful",
    "C06-m13": "MISSED at first contact by C06 and C09 (a '..' looking at stack slot 15 instead of the top once more than 16 '..' are kept); caught since the deep-stack sweeps: C09 - k kept '..' / k ordinary segments (k = 0..40, around 64/128/256) x every tail of <= 4 segments over {a, .., .}; C06 - the same depths as relative reference, behind the reference's own scheme and as the base's path (DESIGN.md 10.5)",
    "C14-m8": "a reference -> full-value conversion (TryFrom<&UriRef> for &Uri ...) is refused for schemes of 65 535 bytes and more: that is C13's subject (caught there), not one of C14's textual routes",
}


def confirmation(pid, m):
    own = os.path.join(ROOT, "seeded", f"{pid}-{m}", "verify.txt")
    if os.path.exists(own):
        mm = re.search(r"DEMO_WITHOUT=\S+ SUITE_WITH=\S+ DEMO_WITH=\S+", open(own).read())
        if mm:
            return mm.group(0)
    for vf in sorted(glob.glob(os.path.join(OUT, pid, "verify*.txt"))):
        txt = open(vf).read()
        if os.path.basename(vf) == f"verify5_{m}.txt":
            mm = re.search(r"DEMO_WITHOUT=\S+ SUITE_WITH=\S+ DEMO_WITH=\S+", txt)
            if mm:
                return mm.group(0)
        for line in txt.splitlines():
            if line.startswith(f"{pid} {m} "):
                return line.strip().split(" ", 2)[2]
    return ""


def needs(readme):
    """The sub-agent's own words on what the change needs in order to manifest."""
    lines = [l.strip() for l in readme.splitlines()]
    for i, l in enumerate(lines):
        if re.search(r"\btrigger", l, re.I) and len(l) > 20:
            t = re.sub(r"[*`#]", "", l)
            t = re.sub(r"^\s*[-•]\s*", "", t)
            return t[:600]
    body = " ".join(l for l in lines[1:] if l and not l.startswith("#"))
    body = re.sub(r"[*`]", "", body)
    return body[:400] if body else "see AGENT_README.md"


for d in sorted(glob.glob(os.path.join(ROOT, "seeded", "C*-m*"))):
    key = os.path.basename(d)
    pid, m = key.split("-")
    rp = os.path.join(d, "AGENT_README.md")
    readme = open(rp).read() if os.path.exists(rp) else ""
    title = readme.strip().splitlines()[0].lstrip("# ").strip() if readme.strip() else key
    if re.match(r"^C\d+b? seeded change$", title):
        for l in readme.splitlines():
            if re.match(r"\s*-\s*\**Change", l):
                title = key.replace("-", " / ") + " - " + re.sub(r"^\s*-\s*\**Change\**\s*", "", l).lstrip(":( ").strip()
                break
    title = re.sub(r"^C(\d+)b? (seeded change|seed): ", lambda m_: f"C{m_.group(1)} / {m} - ", title)
    mp = os.path.join(d, "meta.json")
    old = json.load(open(mp)) if os.path.exists(mp) else {}
    res = matrix.get(key, old.get("checks_run", {}))
    meta = {
        "id": key,
        "breaks_property": pid,
        "round": WAVE.get(m, ""),
        "summary": re.sub(r"[*`]", "", title),
        "needs_to_manifest": needs(readme),
        "origin": "fresh sub-agent given only the property text and a scratch worktree of /repo (nothing from /verif)",
        "confirmed_by_me": confirmation(pid, m) or old.get("confirmed_by_me", ""),
        "confirmation_cmd": "tools/verify_seed.sh <scratch worktree of /repo> seeded/%s   -> demo on the unchanged tree / repository test suite with the patch / demo with the patch" % key,
        "run_cmd": "tools/seedrun.sh seeded/%s %s   (git -C /repo apply; ./check Cxx quick for each; git -C /repo checkout -- .)" % (key, " ".join(sorted(res)) or "<checks>"),
        "checks_run": res,
        "caught_by": sorted([c for c, rc in res.items() if rc == 1]),
        "not_caught_by": sorted([c for c, rc in res.items() if rc == 0]),
        "inconclusive": sorted([c for c, rc in res.items() if rc not in (0, 1)]),
        "first_failure_reported": observed.get(key, old.get("first_failure_reported", {})),
    }
    if key in NOTES:
        meta["note"] = NOTES[key]
    elif old.get("note"):
        meta["note"] = old["note"]
    json.dump(meta, open(mp, "w"), indent=1, ensure_ascii=False)
    print(key, "caught by", meta["caught_by"], "missed by", meta["not_caught_by"], meta["inconclusive"])
