#!/bin/bash
# Runs every quick check under several seeds on the unchanged tree; prints any non-zero exit.
# usage: tools/multiseed.sh "1 2 3" [ids...]
cd "$(dirname "$0")/.."
seeds="${1:-1 2 3}"; shift
ids="${*:-C01 C02 C03 C04 C05 C06 C07 C08 C09 C10 C11 C12 C13 C14 C15 C16 C17 C18 C19 C20}"
bad=0
for s in $seeds; do
  for p in $ids; do
    out=$(VERIF_SEED=$s ./check $p quick 2>&1); rc=$?
    if [ $rc -ne 0 ]; then bad=1; echo "seed=$s $p exit=$rc"; echo "$out" | grep -v "^KNOWN\|^proptest" | tail -4 | cut -c1-700; fi
  done
  echo "seed $s done"
done
exit $bad
