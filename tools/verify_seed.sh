#!/bin/bash
# Confirms a sub-agent's seeded change in a scratch worktree:
#   tools/verify_seed.sh <worktree> <dir with patch.diff + demo.rs>
# prints: DEMO_WITHOUT=pass|fail SUITE_WITH=pass|fail DEMO_WITH=pass|fail
wt="$1"; d="$2"
export CARGO_NET_OFFLINE=true
head=$(git -C /repo rev-parse HEAD)
git -C "$wt" checkout -q -- . ; git -C "$wt" clean -fdq -e target; git -C "$wt" checkout -q --detach "$head" || exit 2
touches_grammar=$(grep -c "grammar.abnf\|aut.cbor" "$d/patch.diff")
if grep -q "iref_macros\|iref::\(uri\|iri\|uri_ref\|iri_ref\)!\|features macros\|use iref::" "$d/demo.rs"; then top=1; else top=0; fi
run_demo() {
	if [ "$top" = 1 ]; then
		mkdir -p "$wt/tests"; cp "$d/demo.rs" "$wt/tests/seed_demo.rs"
		( cd "$wt" && cargo test --offline --features macros --test seed_demo >"$d/demo_$1.log" 2>&1 ); rc=$?; rm -f "$wt/tests/seed_demo.rs"; return $rc
	fi
	mkdir -p "$wt/crates/core/tests"; cp "$d/demo.rs" "$wt/crates/core/tests/seed_demo.rs"; ( cd "$wt" && cargo test -p iref-core --offline --features serde,data --test seed_demo >"$d/demo_$1.log" 2>&1 ); rc=$?; rm -f "$wt/crates/core/tests/seed_demo.rs"; return $rc; }
mkdir -p "$wt/crates/core/tests"
[ "$touches_grammar" != 0 ] && ( cd "$wt" && cargo clean -p iref-core --offline >/dev/null 2>&1 )
if run_demo without; then a=pass; else a=fail; fi
if ! git -C "$wt" apply --binary "$d/patch.diff" 2>"$d/apply.log" && ! git -C "$wt" apply --3way "$d/patch.diff" 2>>"$d/apply.log"; then echo "APPLY=fail"; exit 1; fi
[ "$touches_grammar" != 0 ] && ( cd "$wt" && cargo clean -p iref-core --offline >/dev/null 2>&1 )
if ( cd "$wt" && cargo test --workspace --offline >"$d/suite_with.log" 2>&1 ); then b=pass; else b=fail; fi
if run_demo with; then c=pass; else c=fail; fi
git -C "$wt" checkout -q -- . ; git -C "$wt" clean -fdq -e target
[ "$touches_grammar" != 0 ] && ( cd "$wt" && cargo clean -p iref-core --offline >/dev/null 2>&1 )
echo "DEMO_WITHOUT=$a SUITE_WITH=$b DEMO_WITH=$c"
