#!/bin/bash
# Applies a seeded change to /repo, runs the given checks (quick), reverts.
#   tools/seedrun.sh <dir with patch.diff> <Cxx> [<Cyy> ...]
d="$(cd /verif && realpath "$1")"; shift
cd /verif
if [ -n "$(git -C /repo status --porcelain)" ]; then echo "/repo is not clean"; exit 2; fi
git -C /repo apply --binary "$d/patch.diff" || git -C /repo apply --3way "$d/patch.diff" || { echo "cannot apply"; git -C /repo checkout -q -- .; exit 2; }
res=""
for p in "$@"; do
  out=$(./check $p quick 2>&1); rc=$?
  sig=$(echo "$out" | grep -m1 "^failure:" | cut -c1-260)
  res="$res $p=$rc"
  echo "  $p exit=$rc $sig"
done
git -C /repo checkout -q -- . ; git -C /repo clean -fdq -e target
echo "RESULT seeded/$(basename $d):$res"
