#!/bin/bash
# Takes a sub-agent's deliverables of round 6 (/tmp/adv/<Cxx>/out), confirms them in the agent's scratch worktree,
# files them as seeded/<Cxx>-<mN>, applies the patch to /repo, runs the named quick checks, reverts, and appends
# the lines tools/mkseedmeta.py reads to seeded/matrix_logs/4_round6.log.
#   tools/round6.sh <Cxx> <mN> <check> [<check> ...]
p="$1"; m="$2"; shift 2
cd /verif
sfx=""; [ "$m" = m12 ] && sfx=b; [ "$m" = m13 ] && sfx=c
d="/verif/seeded/$p-$m"; src="/tmp/adv/$p$sfx/out"
mkdir -p "$d"
cp "$src/patch.diff" "$src/demo.rs" "$d/" || exit 2
cp "$src/notes.md" "$d/AGENT_README.md"
v=$(tools/verify_seed.sh "/tmp/adv/$p$sfx/wt" "$d" | tail -1)
echo "$p $m $v" | tee "$d/verify.txt"
case "$v" in "DEMO_WITHOUT=pass SUITE_WITH=pass DEMO_WITH=fail") ;; *) echo "NOT CONFIRMED"; exit 1;; esac
tools/seedrun.sh "$d" "$@" | sed "s/^  \(C[0-9][0-9] exit=\)/   [$p-$m]  \1/" | tee -a seeded/matrix_logs/4_round6.log
