#!/usr/bin/env python3
"""Regenerates /verif/MANIFEST.json from the table below (single source of truth)."""
import json, os, sys
ROOT = os.path.dirname(os.path.dirname(os.path.abspath(__file__)))

# id -> (technique, level text, level note, design ref)
CHECKS = {
 "C07": ("metamorphic property-based testing (proptest): triples built from equivalence-preserving and near-miss variants, both directions against a reference equivalence (R-EQUIV), RST laws, 23 cross-type impls, every comparison under catch_unwind; values paired with prefix views of their own buffer and with base()/directory()/parent views (same start address); long near-miss values of every length 1..300; case flips inside IP-literals as near misses",
         "300 k triples per quick run over 11 comparable kinds x 2 families, incl. ill-formed %XX octets; the expected verdict is computed from the two texts by the documented rule, independently of how the variant was made.",
         "Trusts the octet decoder / Appendix-B splitter / dot-segment model in the harness.", "DESIGN.md 4/C07"),
 "C08": ("metamorphic property-based testing (proptest): Eq=>Hash under two fixed hashers, total-order laws, owned vs borrowed, cross-type PartialOrd, every Borrow view incl. HashSet/BTreeSet lookups (third hasher is sensitive to how bytes are split over write calls); values paired with prefix views of their own buffer; long near-miss values",
         "200 k triples per quick run, 9 ordered pairs each; collection lookups through each Borrow view of equal and unequal values.",
         "Hash values are only related through equality; Borrow<str>/<[u8]> are outside the property.", "DESIGN.md 4/C08"),
 "C13": ("differential property-based testing (proptest): 42 conversion routes against the independent recogniser, and URI-family vs IRI-family on the same ASCII input (components, ==/cmp/hash, resolution, editing traces); conversions also on misaligned / re-used buffers and with one non-ASCII scalar at every alignment; comparison against prefix views of the same buffer and against values differing only in query and fragment",
         "150 k cases per quick run; success iff the target grammar accepts, text/address preserved, failure hands back the original.",
         "Trusts R-ABNF for the expected success of each conversion.", "DESIGN.md 4/C13"),
 "C14": ("property-based testing (proptest): (type, input) x ~30 routes out and ~25 routes in (incl. serde value deserialisers for strings and byte strings), text identity and accept-iff-constructor-accepts; plain-text comparison judged route by route (str, &str, String, [u8], &[u8], [u8; N], borrowed and owned) incl. sub-slices of the value's own text; cross-type AsRef/Borrow views; clone_from; ~50 non-text serde tokens (integers, floats, bool, char, unit, null, arrays, objects) per case into every owned type: an Ok value must be valid; widening into UriError/IriError keeps variant and input",
         "150 k (type, input) pairs per quick run over valid, mutated and ill-formed-UTF-8 inputs for all 20 types.",
         "Routes in are judged against the library's checked constructor (whose language is C01's subject).", "DESIGN.md 4/C14"),
 "C15": ("round-trip property-based testing (proptest): pairs around a shared stem; relative_to then resolution, judged by the library and by the reference resolver/equivalence; pairs that are views of one buffer (both ways round) and a value relative to itself",
         "300 k pairs per quick run, classes for every relation of a to b's directory.",
         "Two recorded findings are excluded by narrow matchers (unreachable targets with a final dot segment; C06 resolution quirk).", "DESIGN.md 4/C15"),
 "C16": ("property-based testing (proptest): (value, prefix) pairs around a shared stem with equivalence-preserving rewrites; iff-oracle on normalized segment prefixes; base() against a text cut; the prefix being the value itself or a view of its buffer; corresponding long segments of every length 1..400 equal once decoded or differing in one position",
         "200 k cases per quick run over Path::suffix, Ri/RiRef::suffix and base().",
         "Trusts the dot-segment model and octet decoder.", "DESIGN.md 4/C16"),
 "C17": ("generated programs with the compiler in the loop: batches of macro invocations compiled with rustc (JSON diagnostics mapped to literals), accepted constants compared with the run-time parse in a second generated program; 6 source spellings incl. raw strings, all-escapes, escape_default and line continuations (also in front of Unicode white space that Rust does not skip)",
         "1000 (quick) to ~19 k (thorough) one-invocation programs over 4 macros x 3 source spellings; compile-time rejected set == run-time rejected set; values indistinguishable.",
         "The compiler is part of the system under test; thousands, not millions, of programs.", "DESIGN.md 4/C17"),
 "C18": ("property-based testing (proptest): data-URL-shaped byte strings and mutants; borrowed vs owned differential, reassembly, own RFC 4648 codec; watchdog for unbounded loops; libFuzzer in thorough; every sequence of <= 5 tokens after 'data:'; serde, Deref/AsRef/Borrow views and clone_from in both directions",
         "300 k inputs per quick run; every accessor of the borrowed form (re-scan) against the owned form (stored offsets) and against the text's own split.",
         "Media-type syntax is left open (accept => shape, not the converse).", "DESIGN.md 4/C18"),
 "C19": ("exhaustive enumeration of all 1- and 2-escape patterns (x 10 types) + structured longer patterns + proptest mixes; octet-decoder and std::str::from_utf8 as oracle; every component read back from 3-5 embedding contexts (numeric passwords, many-colon user infos, well-known schemes)",
         "663 k enumerated + 100 k random components per quick run; bytes() always, chars/len/decode/==str on well-formed octets, totality and non-aliasing on ill-formed ones.",
         "Two recorded findings in the pct-str / utf8-decode dependencies (panic on ill-formed octets; overlong forms accepted) are excluded by matchers keyed on octet well-formedness and panic site.", "DESIGN.md 4/C19"),
 "C20": ("property-based testing (proptest) with a counting global allocator (thread-local, armed around the calls) and pointer-range checks; the same inputs misaligned inside a larger buffer; every component length 0..1100 (+ every 97th to 70 000)",
         "100 k inputs per quick run (incl. > 64 KiB), ~35 read-only calls each inside one armed region; allocation count must be 0 and every slice must lie in the input in component order.",
         "Allocating operations (normalized*, suffix, relative_to, to_owned, resolution) are outside the statement.", "DESIGN.md 4/C20"),

 "C01": ("exhaustive enumeration (every byte / Unicode scalar value per context, all short strings over a focused alphabet, all IPv6/dec-octet shapes) + proptest (grammar derivations, mutants, random bytes), differential against an independent RFC 3986/3987 recogniser; libFuzzer in thorough; every non-sweep input is also judged at an odd offset of a larger buffer and in a buffer re-used from the previous input of that length; rejected inputs are also widened into UriError/IriError (variant and untouched input kept)",
         "Both directions of 'accepted iff derivable' on ~60 M enumerated and ~400 k random (type, input) pairs per quick run, through every construction route, with text/payload identity. Closes all single-token and short-string sub-domains completely; longer inputs are sampled.",
         "Trusts the hand-transcribed RFC grammar (self-checked: RFC example tables, interpreter vs automaton, direct IPv4/IPv6 recogniser). The driver's stamp makes the verdict one about the current grammar/automaton files.", "DESIGN.md 4/C01"),
 "C03": ("exhaustive product of user-info x host x port pools + proptest random authorities, vs RFC 3986 3.2 splitter oracle; every authority read inside 5 schemes x 8 tails, misaligned and in a re-used buffer; every ordered pair of 72 equal-length authorities read one after the other from one buffer",
         "Every accessor (user_info, host, port, parts) of stand-alone and embedded authorities, borrowed and owned, compared with an independent section-3.2 splitter on the complete pool product (12.5 k cases) and 200 k random authorities; parts re-validated; reassembly checked.",
         "Trusts the harness splitter; authorities are gated by the library's checked constructor.", "DESIGN.md 4/C03"),
 "C04": ("stateful property-based testing (proptest op vectors with nested handles) against a validity oracle (checked constructor + independent recogniser + UTF-8 + no panic) after every op; libFuzzer+ASan in thorough; exhaustive histories of length <= 2 over 31 ops from 13 buffers; arguments and buffers of 1 MiB+3 .. 8 MiB+1 each followed by a small case on the same thread",
         "200 k (quick) generated histories of setters / authority_mut / path_mut / resolve over all ways of obtaining a buffer, validity judged after every call and all accessors exercised. Finds any reachable ill-formed buffer within the generated history shapes; no proof.",
         "Trusts the R-ABNF recogniser and the checked constructors (C01).", "DESIGN.md 4/C04"),
 "C05": ("property-based testing (proptest): (buffer, setter, value) triples against an exact expected-text oracle built from Appendix-B components and the three documented disambiguations; complete product of 720 buffer shapes x 29 calls; every ordered pair of 120 related calls on two buffers (state carried between calls); tail lengths 0..25 000 through each setter; 1-8 MiB values",
         "300 k triples per quick run; the observed text must equal the section 5.3 recomposition with exactly the permitted path adjustment, so both a missing and an unnecessary disambiguation fail, as does any change to another component.",
         "Trusts the Appendix-B splitter and recomposition; for the empty path under an authority both '' and '/' are accepted.", "DESIGN.md 4/C05"),
 "C06": ("property-based testing (proptest): (base, reference) pairs from a dot-rich structural generator, differential against an own RFC 3986 5.2 resolver; three entry points and two families compared; libFuzzer in thorough; complete product 96 bases x ~900 references; the same reference against a sibling base right after (state between calls); base and reference as views of one buffer; deep dot-segment stacks (k leading '..' or plain segments, k = 0..40 and around 64/128/256) as relative reference, behind the reference's own scheme and as the base's path",
         "300 k pairs per quick run over all 5.2.2 branches x base shapes (class floors per cell), byte-identical comparison with the RFC target when it is unambiguous, validity + component + path-rendering check when it is not.",
         "Trusts the harness resolver (R-NORM self-checked against a literal 5.2.4). For relative merged paths whose normal form starts with an empty segment both the literal and the Errata-4547 reading are accepted (the statement does not settle it).", "DESIGN.md 4/C06"),
 "C09": ("exhaustive enumeration of all paths <= 6 segments over {a,b:c,'',.,..} (stand-alone + 3 embeddings) + proptest random long paths, vs dot-segment model; lengths beyond the inline buffers, 1-8 MiB segments followed by small paths on the same thread; thorough tier: one path beyond 4 GiB per family; normalized_segments() also read by internal iteration (fold, rfold, try_fold, try_rfold, rev().for_each, last) and from alternating ends; deep-stack sweep: k kept '..' or k ordinary segments (k = 0..40, around 64/128/256) x every tail of <= 4 segments over {a, .., .}",
         "normalized_segments / normalized / PathBuf::normalize / PathMut::normalize judged against the N/E model (itself checked against a literal RFC 5.2.4), with idempotence, absoluteness and frame checks.",
         "Trusts the dot-segment model; a lone empty segment may be written the RFC way ('/' or '').", "DESIGN.md 4/C09"),
 "C10": ("model-based stateful property testing (proptest op vectors through one handle) against a list model with shield-reading sets; complete product 31 paths x 5 hosts x all op sequences <= 2 over 12 ops; histories of 63..513 (thorough 4097) calls through one handle; every embedded history replayed through the public unsafe iri::PathMut::new on a plain Vec<u8>",
         "300 k op vectors per quick run on stand-alone and embedded paths; after every op the handle view must be a valid path that is a reading of the model list; frame and handle-reuse differentials.",
         "A leading '.' before an empty/colon segment is read both as shield and as segment (the text cannot tell); pop on an empty path after an authority may stay or give '/..'.", "DESIGN.md 4/C10"),
 "C11": ("model-based stateful property testing (proptest op vectors through one AuthorityMut handle) against a (userinfo, host, port) model; complete product 60 authority shapes x 5 tails x all call sequences <= 2 over 11 calls; arguments derived from the current value; histories of 63..1025 (thorough 65 537) calls through one handle; 1-5 MiB sub-components; every history replayed through the public unsafe AuthorityMut::new on a plain Vec<u8>",
         "200 k vectors per quick run; exact handle view after every call, exact final text, fresh-handle differential.",
         "Trusts the section-3.2 splitter and recomposition.", "DESIGN.md 4/C11"),

 "C02": ("property-based testing (proptest): structural reference generator + accepted mutants vs RFC 3986 Appendix-B splitter oracle; libFuzzer in thorough; the same text also parsed misaligned inside a larger buffer and in a re-used buffer; exhaustive sweeps: every ucschar/iprivate scalar in every slot, every component length 0..1100 (+ every 97th to 70 000)",
         "Generated-input search: ~300k (quick) / millions (thorough) generated references of both families, every accessor of the four borrowed and four owned types compared with an independent Appendix-B splitter, components re-validated, section 5.3 recomposition checked. Finds wrong index arithmetic on any generated shape; gives no proof of absence.",
         "Trusts the harness's Appendix-B splitter and R-ABNF recogniser (self-checked at start-up) and the library's checked constructor as validity gate (its language is C01's subject).", "DESIGN.md 4/C02"),
 "C12": ("exhaustive enumeration of short paths x all next/next_back schedules + proptest random long paths, vs '/'-split oracle; after every partially consumed state every other consuming adaptor (last, count, nth, nth_back, collect, rev, size_hint; fold, rfold, try_fold, rev().for_each); every ucschar scalar; runs of '/' of every length 0..1100 at every offset 0..8",
         "All strings <= 8 over {a,/,.} and <= 5 items over {a,/,é,:,%41}, each under all 2^(n+2) iterator schedules, plus ~200k random paths/schedules; all path queries compared with their definition on the split. Exhaustive inside the enumerated sub-domain, sampled outside.",
         "Trusts the '/'-split and the dot-segment model (self-checked against a literal RFC 3986 5.2.4 implementation).", "DESIGN.md 4/C12"),
}
ALL = ["C%02d" % i for i in range(1, 21)]
NOT_YET = {}

def main():
    checks = []
    for pid in ALL:
        if pid not in CHECKS: continue
        tech, text, note, ref = CHECKS[pid]
        checks.append({
            "property_id": pid,
            "quick_cmd": f"./check {pid} quick",
            "thorough_cmd": f"./check {pid} thorough",
            "evidence_file": f"/verif/evidence/{pid}.json",
            "replay_cmd_template": "./check replay {path}",
            "engine": "iref-verif",
            "level_claimed": {"category": "exploration", "text": text, "design_ref": ref},
            "level_note": note,
            "technique": tech,
        })
    na = [{"property_id": p, "reason": NOT_YET.get(p, "check not built yet in this session (work in progress; see DESIGN.md section 8 build order) - not a claim that the technique cannot apply")}
          for p in ALL if p not in CHECKS]
    m = {
        "version": 1,
        "setup_cmd": "./setup.sh",
        "hooks": {
            "guard": "iref_verif_hooks",
            "enable": "none needed: every observation goes through the public API (the harness depends on /repo by path with features serde,data[,macros]); the cfg name is reserved, no source commit uses it",
            "baseline_off_cmd": "cd /repo && cargo test --workspace --no-fail-fast --offline",
            "source_commits": [],
            "add_only": True,
        },
        "engines": [
            {"name": "iref-verif", "path": "/verif/harness", "serves_properties": [c["property_id"] for c in checks],
             "kind_free_text": "Rust binary: proptest 1.11 TestRunner sharded over 16 threads + exhaustive enumerators + reference models (R-ABNF, Appendix-B splitter, dot-segment model, RFC 3986 5.2 resolver, pct decoder); driver ./check rebuilds from /repo's working tree (stamps grammar/automaton files cargo cannot see)"},
        ],
        "checks": checks,
        "not_applicable": na,
        "notes": "Exit codes: 0 held (KNOWN-FINDING lines possible), 1 VIOLATION, 2 inconclusive (build failure, hang, self-check, starved generator). Known findings: /verif/known_findings.json; regressions replayed first on every run from /verif/regressions.",
    }
    json.dump(m, open(os.path.join(ROOT, "MANIFEST.json"), "w"), indent=1)
    print("wrote MANIFEST.json with", len(checks), "checks,", len(na), "not_applicable")

main()
