#!/usr/bin/env python3
"""Regenerates /verif/MANIFEST.json from the table below (single source of truth)."""
import json, os, sys
ROOT = os.path.dirname(os.path.dirname(os.path.abspath(__file__)))

# id -> (technique, level text, level note, design ref)
CHECKS = {
 "C02": ("property-based testing (proptest): structural reference generator + accepted mutants vs RFC 3986 Appendix-B splitter oracle; libFuzzer in thorough",
         "Generated-input search: ~300k (quick) / millions (thorough) generated references of both families, every accessor of the four borrowed and four owned types compared with an independent Appendix-B splitter, components re-validated, section 5.3 recomposition checked. Finds wrong index arithmetic on any generated shape; gives no proof of absence.",
         "Trusts the harness's Appendix-B splitter and R-ABNF recogniser (self-checked at start-up) and the library's checked constructor as validity gate (its language is C01's subject).", "DESIGN.md 4/C02"),
 "C12": ("exhaustive enumeration of short paths x all next/next_back schedules + proptest random long paths, vs '/'-split oracle",
         "All strings <= 8 over {a,/,.} and <= 5 items over {a,/,é,:,%41}, each under all 2^(n+2) iterator schedules, plus ~200k random paths/schedules; all path queries compared with their definition on the split. Exhaustive inside the enumerated sub-domain, sampled outside.",
         "Trusts the '/'-split and the dot-segment model (self-checked against a literal RFC 3986 5.2.4 implementation).", "DESIGN.md 4/C12"),
}
ALL = ["C%02d" % i for i in range(1, 21)]
NOT_YET = {}

def main():
    checks = []
    for pid in ALL:
        if pid not in CHECKS: continue
        tech, text, note, ref = CHECKS[pid]
        checks.append({
            "property_id": pid,
            "quick_cmd": f"./check {pid} quick",
            "thorough_cmd": f"./check {pid} thorough",
            "evidence_file": f"/verif/evidence/{pid}.json",
            "replay_cmd_template": "./check replay {path}",
            "engine": "iref-verif",
            "level_claimed": {"category": "exploration", "text": text, "design_ref": ref},
            "level_note": note,
            "technique": tech,
        })
    na = [{"property_id": p, "reason": NOT_YET.get(p, "check not built yet in this session (work in progress; see DESIGN.md section 8 build order) - not a claim that the technique cannot apply")}
          for p in ALL if p not in CHECKS]
    m = {
        "version": 1,
        "setup_cmd": "./setup.sh",
        "hooks": {
            "guard": "iref_verif_hooks",
            "enable": "none needed: every observation goes through the public API (the harness depends on /repo by path with features serde,data[,macros]); the cfg name is reserved, no source commit uses it",
            "baseline_off_cmd": "cd /repo && cargo test --workspace --no-fail-fast --offline",
            "source_commits": [],
            "add_only": True,
        },
        "engines": [
            {"name": "iref-verif", "path": "/verif/harness", "serves_properties": [c["property_id"] for c in checks],
             "kind_free_text": "Rust binary: proptest 1.11 TestRunner sharded over 16 threads + exhaustive enumerators + reference models (R-ABNF, Appendix-B splitter, dot-segment model, RFC 3986 5.2 resolver, pct decoder); driver ./check rebuilds from /repo's working tree (stamps grammar/automaton files cargo cannot see)"},
        ],
        "checks": checks,
        "not_applicable": na,
        "notes": "Exit codes: 0 held (KNOWN-FINDING lines possible), 1 VIOLATION, 2 inconclusive (build failure, hang, self-check, starved generator). Known findings: /verif/known_findings.json; regressions replayed first on every run from /verif/regressions.",
    }
    json.dump(m, open(os.path.join(ROOT, "MANIFEST.json"), "w"), indent=1)
    print("wrote MANIFEST.json with", len(checks), "checks,", len(na), "not_applicable")

main()
