#!/usr/bin/env python3
"""Regenerates /verif/MANIFEST.json from the table below (single source of truth)."""
import json, os, sys
ROOT = os.path.dirname(os.path.dirname(os.path.abspath(__file__)))

# id -> (technique, level text, level note, design ref)
CHECKS = {
 "C01": ("exhaustive enumeration (every byte / Unicode scalar value per context, all short strings over a focused alphabet, all IPv6/dec-octet shapes) + proptest (grammar derivations, mutants, random bytes), differential against an independent RFC 3986/3987 recogniser; libFuzzer in thorough",
         "Both directions of 'accepted iff derivable' on ~60 M enumerated and ~400 k random (type, input) pairs per quick run, through every construction route, with text/payload identity. Closes all single-token and short-string sub-domains completely; longer inputs are sampled.",
         "Trusts the hand-transcribed RFC grammar (self-checked: RFC example tables, interpreter vs automaton, direct IPv4/IPv6 recogniser). The driver's stamp makes the verdict one about the current grammar/automaton files.", "DESIGN.md 4/C01"),
 "C03": ("exhaustive product of user-info x host x port pools + proptest random authorities, vs RFC 3986 3.2 splitter oracle",
         "Every accessor (user_info, host, port, parts) of stand-alone and embedded authorities, borrowed and owned, compared with an independent section-3.2 splitter on the complete pool product (12.5 k cases) and 200 k random authorities; parts re-validated; reassembly checked.",
         "Trusts the harness splitter; authorities are gated by the library's checked constructor.", "DESIGN.md 4/C03"),
 "C04": ("stateful property-based testing (proptest op vectors with nested handles) against a validity oracle (checked constructor + independent recogniser + UTF-8 + no panic) after every op; libFuzzer+ASan in thorough",
         "200 k (quick) generated histories of setters / authority_mut / path_mut / resolve over all ways of obtaining a buffer, validity judged after every call and all accessors exercised. Finds any reachable ill-formed buffer within the generated history shapes; no proof.",
         "Trusts the R-ABNF recogniser and the checked constructors (C01).", "DESIGN.md 4/C04"),
 "C05": ("property-based testing (proptest): (buffer, setter, value) triples against an exact expected-text oracle built from Appendix-B components and the three documented disambiguations",
         "300 k triples per quick run; the observed text must equal the section 5.3 recomposition with exactly the permitted path adjustment, so both a missing and an unnecessary disambiguation fail, as does any change to another component.",
         "Trusts the Appendix-B splitter and recomposition; for the empty path under an authority both '' and '/' are accepted.", "DESIGN.md 4/C05"),
 "C06": ("property-based testing (proptest): (base, reference) pairs from a dot-rich structural generator, differential against an own RFC 3986 5.2 resolver; three entry points and two families compared; libFuzzer in thorough",
         "300 k pairs per quick run over all 5.2.2 branches x base shapes (class floors per cell), byte-identical comparison with the RFC target when it is unambiguous, validity + component + path-rendering check when it is not.",
         "Trusts the harness resolver (R-NORM self-checked against a literal 5.2.4). For relative merged paths whose normal form starts with an empty segment both the literal and the Errata-4547 reading are accepted (the statement does not settle it).", "DESIGN.md 4/C06"),
 "C09": ("exhaustive enumeration of all paths <= 6 segments over {a,b:c,'',.,..} (stand-alone + 3 embeddings) + proptest random long paths, vs dot-segment model",
         "normalized_segments / normalized / PathBuf::normalize / PathMut::normalize judged against the N/E model (itself checked against a literal RFC 5.2.4), with idempotence, absoluteness and frame checks.",
         "Trusts the dot-segment model; a lone empty segment may be written the RFC way ('/' or '').", "DESIGN.md 4/C09"),
 "C10": ("model-based stateful property testing (proptest op vectors through one handle) against a list model with shield-reading sets",
         "300 k op vectors per quick run on stand-alone and embedded paths; after every op the handle view must be a valid path that is a reading of the model list; frame and handle-reuse differentials.",
         "A leading '.' before an empty/colon segment is read both as shield and as segment (the text cannot tell); pop on an empty path after an authority may stay or give '/..'.", "DESIGN.md 4/C10"),
 "C11": ("model-based stateful property testing (proptest op vectors through one AuthorityMut handle) against a (userinfo, host, port) model",
         "200 k vectors per quick run; exact handle view after every call, exact final text, fresh-handle differential.",
         "Trusts the section-3.2 splitter and recomposition.", "DESIGN.md 4/C11"),

 "C02": ("property-based testing (proptest): structural reference generator + accepted mutants vs RFC 3986 Appendix-B splitter oracle; libFuzzer in thorough",
         "Generated-input search: ~300k (quick) / millions (thorough) generated references of both families, every accessor of the four borrowed and four owned types compared with an independent Appendix-B splitter, components re-validated, section 5.3 recomposition checked. Finds wrong index arithmetic on any generated shape; gives no proof of absence.",
         "Trusts the harness's Appendix-B splitter and R-ABNF recogniser (self-checked at start-up) and the library's checked constructor as validity gate (its language is C01's subject).", "DESIGN.md 4/C02"),
 "C12": ("exhaustive enumeration of short paths x all next/next_back schedules + proptest random long paths, vs '/'-split oracle",
         "All strings <= 8 over {a,/,.} and <= 5 items over {a,/,é,:,%41}, each under all 2^(n+2) iterator schedules, plus ~200k random paths/schedules; all path queries compared with their definition on the split. Exhaustive inside the enumerated sub-domain, sampled outside.",
         "Trusts the '/'-split and the dot-segment model (self-checked against a literal RFC 3986 5.2.4 implementation).", "DESIGN.md 4/C12"),
}
ALL = ["C%02d" % i for i in range(1, 21)]
NOT_YET = {}

def main():
    checks = []
    for pid in ALL:
        if pid not in CHECKS: continue
        tech, text, note, ref = CHECKS[pid]
        checks.append({
            "property_id": pid,
            "quick_cmd": f"./check {pid} quick",
            "thorough_cmd": f"./check {pid} thorough",
            "evidence_file": f"/verif/evidence/{pid}.json",
            "replay_cmd_template": "./check replay {path}",
            "engine": "iref-verif",
            "level_claimed": {"category": "exploration", "text": text, "design_ref": ref},
            "level_note": note,
            "technique": tech,
        })
    na = [{"property_id": p, "reason": NOT_YET.get(p, "check not built yet in this session (work in progress; see DESIGN.md section 8 build order) - not a claim that the technique cannot apply")}
          for p in ALL if p not in CHECKS]
    m = {
        "version": 1,
        "setup_cmd": "./setup.sh",
        "hooks": {
            "guard": "iref_verif_hooks",
            "enable": "none needed: every observation goes through the public API (the harness depends on /repo by path with features serde,data[,macros]); the cfg name is reserved, no source commit uses it",
            "baseline_off_cmd": "cd /repo && cargo test --workspace --no-fail-fast --offline",
            "source_commits": [],
            "add_only": True,
        },
        "engines": [
            {"name": "iref-verif", "path": "/verif/harness", "serves_properties": [c["property_id"] for c in checks],
             "kind_free_text": "Rust binary: proptest 1.11 TestRunner sharded over 16 threads + exhaustive enumerators + reference models (R-ABNF, Appendix-B splitter, dot-segment model, RFC 3986 5.2 resolver, pct decoder); driver ./check rebuilds from /repo's working tree (stamps grammar/automaton files cargo cannot see)"},
        ],
        "checks": checks,
        "not_applicable": na,
        "notes": "Exit codes: 0 held (KNOWN-FINDING lines possible), 1 VIOLATION, 2 inconclusive (build failure, hang, self-check, starved generator). Known findings: /verif/known_findings.json; regressions replayed first on every run from /verif/regressions.",
    }
    json.dump(m, open(os.path.join(ROOT, "MANIFEST.json"), "w"), indent=1)
    print("wrote MANIFEST.json with", len(checks), "checks,", len(na), "not_applicable")

main()
