//! C17 — compile-time macros accept and produce exactly what the run-time
//! parser does. The compiler is in the loop: programs are generated, compiled
//! and (for the accepted literals) run.

use std::collections::{BTreeMap, BTreeSet, HashSet};
use std::hash::{Hash, Hasher};
use std::path::{Path, PathBuf};
use std::process::Command;
use std::time::Instant;

use proptest::collection::vec;
use proptest::prelude::*;
use proptest::sample::select;
use proptest::strategy::ValueTree;
use proptest::test_runner::{Config, RngAlgorithm, TestRng, TestRunner};

use crate::engine::{verif_root, Tier};
use crate::gen::{self, Fam, Opt};
use crate::oracle::abnf::{self, Ty};
use crate::props::routes::lib_accepts;

#[derive(Debug, Clone, Copy, PartialEq, Eq, Hash, PartialOrd, Ord)]
pub enum Mac {
	Uri,
	UriRef,
	Iri,
	IriRef,
}

impl Mac {
	fn name(self) -> &'static str {
		match self {
			Mac::Uri => "uri",
			Mac::UriRef => "uri_ref",
			Mac::Iri => "iri",
			Mac::IriRef => "iri_ref",
		}
	}
	fn ty_name(self) -> &'static str {
		match self {
			Mac::Uri => "Uri",
			Mac::UriRef => "UriRef",
			Mac::Iri => "Iri",
			Mac::IriRef => "IriRef",
		}
	}
	fn ty(self) -> Ty {
		match self {
			Mac::Uri => Ty::Uri,
			Mac::UriRef => Ty::UriRef,
			Mac::Iri => Ty::Iri,
			Mac::IriRef => Ty::IriRef,
		}
	}
}

const MACS: [Mac; 4] = [Mac::Uri, Mac::UriRef, Mac::Iri, Mac::IriRef];

#[derive(Debug, Clone, Copy, PartialEq, Eq, Hash)]
pub enum Spelling {
	Debug,
	Raw,
	AllEscapes,
	/// `str::escape_default`: `\'`, `\"`, `\\`, `\n`, `\t`, `\u{..}` for everything non-ASCII
	EscapeDefault,
	/// Debug spelling with a line continuation (`\` + newline + indentation) inserted
	Continuation,
	/// characters written raw, with a line continuation right in front of a character that Unicode
	/// calls white space but that Rust does NOT skip after a continuation (U+00A0, U+3000, U+2003, ...)
	/// when the value has one, in front of some other character otherwise
	ContinuationRaw,
	/// escaped like Debug, but line feeds written as REAL line breaks inside the (non-raw) literal, and
	/// `\u{..}` escapes written with `_` separators and leading zeros (all legal Rust)
	Multiline,
}

#[derive(Debug, Clone, Hash)]
pub struct Lit {
	pub value: String,
	pub spelling: Spelling,
}

fn render(l: &Lit) -> String {
	match l.spelling {
		Spelling::Debug => format!("{:?}", l.value),
		Spelling::Raw => {
			// rustc itself refuses a bare CR and (deny-by-default lint text_direction_codepoint_in_literal)
			// bidirectional control characters written literally: that has nothing to do with the macros
			let bidi = |c: char| matches!(c, '\u{202a}'..='\u{202e}' | '\u{2066}'..='\u{2069}');
			if l.value.contains('\r') || l.value.chars().any(bidi) {
				return format!("\"{}\"", l.value.escape_default());
			}
			let mut n = 0;
			loop {
				let close = format!("\"{}", "#".repeat(n));
				if !l.value.contains(&close) {
					break;
				}
				n += 1;
			}
			let h = "#".repeat(n);
			format!("r{h}\"{}\"{h}", l.value)
		}
		Spelling::EscapeDefault => format!("\"{}\"", l.value.escape_default()),
		Spelling::Continuation => {
			let d = format!("{:?}", l.value);
			// insert a line continuation after the opening quote's first character boundary that is not inside an escape
			let inner = &d[1..d.len() - 1];
			let cut = inner.char_indices().map(|(i, _)| i).find(|i| *i > 0 && !inner[..*i].ends_with('\\') && !inner[..*i].contains("\\u{") || *i == 0).unwrap_or(0);
			let cut = if inner[..cut].contains('\\') { 0 } else { cut };
			// rustc skips literal white space after a continuation: a value character that IS a space must not
			// be the first thing after the break (it would silently leave the value)
			if inner[cut..].starts_with(' ') {
				return d;
			}
			format!("\"{}\\\n      {}\"", &inner[..cut], &inner[cut..])
		}
		Spelling::ContinuationRaw => {
			let skipped = |c: char| matches!(c, ' ' | '\t' | '\n' | '\r');
			let chars: Vec<char> = l.value.chars().collect();
			let cut = chars.iter().position(|c| c.is_whitespace() && !skipped(*c) && !c.is_ascii()).or_else(|| {
				let n = chars.len();
				(0..n).map(|j| (j + n / 2) % n.max(1)).find(|&j| j < n && !skipped(chars[j]))
			});
			let bidi = |c: char| matches!(c, '\u{202a}'..='\u{202e}' | '\u{2066}'..='\u{2069}');
			let mut s = String::from("\"");
			for (j, c) in chars.iter().enumerate() {
				if Some(j) == cut {
					s.push_str("\\\n \t  ");
				}
				if *c == '"' || *c == '\\' || (*c as u32) < 0x20 || *c == '\u{7f}' || bidi(*c) {
					s.push_str(&c.escape_default().to_string());
				} else {
					s.push(*c);
				}
			}
			s.push('"');
			s
		}
		Spelling::Multiline => {
			let mut s = String::from("\"");
			for (j, c) in l.value.chars().enumerate() {
				match c {
					'\n' => s.push('\n'),
					'"' => s.push_str("\\\""),
					'\\' => s.push_str("\\\\"),
					'\r' => s.push_str("\\r"),
					c if (c as u32) >= 0x80 || (c as u32) < 0x20 || c == '\u{7f}' => {
						let h = format!("{:x}", c as u32);
						// \u{e_9}, \u{00_e9}, \u{0000e9}: at most 6 hex digits, '_' anywhere after the first digit
						let spelled = match j % 3 {
							0 if h.len() >= 2 => format!("{}_{}", &h[..1], &h[1..]),
							1 if h.len() <= 4 => format!("00_{h}"),
							_ => format!("{:0>6}", h),
						};
						s.push_str(&format!("\\u{{{spelled}}}"));
					}
					c => s.push(c),
				}
			}
			s.push('"');
			s
		}
		Spelling::AllEscapes => {
			let mut s = String::from("\"");
			for (i, c) in l.value.chars().enumerate() {
				if (c as u32) < 0x80 && i % 2 == 0 {
					s.push_str(&format!("\\x{:02x}", c as u32))
				} else {
					s.push_str(&format!("\\u{{{:x}}}", c as u32))
				}
			}
			s.push('"');
			s
		}
	}
}

fn literal(mac: Mac) -> BoxedStrategy<Lit> {
	let fam = match mac {
		Mac::Uri | Mac::UriRef => Fam::Uri,
		_ => Fam::Iri,
	};
	let full = matches!(mac, Mac::Uri | Mac::Iri);
	let o = Opt::new(fam).with_nonutf8(true);
	let tricky: Vec<String> = [
		"", "a:", "a", "a:b\"c", "a:b\\c", "a:\n", "a:\t", "a:b c", "a:\u{0}", "a:'", "a:{}", "a:#\"#", "a:\"#", "a:%", "a:%4g", "a://[::1]:80/", "a://[::1",
		"http://r\u{e9}sum\u{e9}.example/\u{8a9e}?\u{e000}#\u{10000}", "a:\u{e000}", "a:?\u{e000}", "a:\u{fffe}", "//h", "?q", "#f", "./a:b", "a:b:c", "1a:b", "\u{feff}a:b", "a:\r", "a:\r\n",
		// apostrophes and other sub-delims (valid), code points that Unicode-aware code likes to special-case (valid ucschar)
		"http://example.org/it's", "a:'", "a:('*')", "a:!$&'()*+,;=", "s:/\u{5d0}\u{200f}/b", "s:/\u{200e}", "s:/\u{202a}x\u{202c}", "s:/\u{202e}", "s:/\u{200c}\u{200d}", "s:/\u{feff}",
		"s:/\u{ad}", "s:/\u{a0}", "s:/e\u{301}", "s:/\u{fe0f}", "s:/\u{2028}\u{2029}", "s:/\u{130}\u{df}", "s:/\u{ff0f}\u{ff1a}\u{ff03}\u{ff1f}", "s:/\u{3000}", "s://\u{ff0e}/", "s:/\u{2f}\u{338}",
		"s:/\u{e0001}", "s:/\u{1f600}", "s:?\u{10fffd}", "s:/\u{d7ff}\u{f900}",
		// Unicode white space that is legal IRI text
		"http://example.org/a/\u{3000}doc", "s:/a\u{a0}b", "s:/\u{2003}x", "s:/x\u{1680}", "s:?\u{205f}", "s:#\u{202f}\u{2009}", "s:/\u{85}", "s://\u{3000}h/",
		// a backslash that ends a source line (when the line feed is written as a real line break), followed by
		// text that would be an escape if the backslash were taken for one - none of these is a valid URI/IRI
		"http://a/\\\nx41", "a:\\\n  u{e9}", "a:b\\\n'", "a:\\\n\\\nx41", "a:\n", "a:b\nc", "a:\\", "a:\\x41", "a:\\u{41}",
		// self-similar values: the scheme text again as host, path or second scheme
		"x://x://", "https://https://example.org/", "a://a:/", "a:a:", "http://http", "s://s/s?s#s", "a:a://a",
	]
	.iter()
	.map(|s| s.to_string())
	.collect();
	let value = prop_oneof![
		4 => gen::reference(o, full),
		2 => gen::reference(Opt::new(Fam::Iri).with_nonutf8(true), full),
		1 => gen::reference(o, !full),
		3 => (gen::reference(o, full), vec(gen::edit(), 1..=2)).prop_map(|(s, e)| gen::apply_edits(&s, &e)),
		3 => select(tricky),
		1 => (gen::scheme(), gen::reference(o, false)).prop_map(|(sc, rest)| format!("{sc}://{sc}://{rest}")),
		1 => (any::<bool>(), select(vec!['\u{a0}', '\u{1680}', '\u{2000}', '\u{2003}', '\u{200a}', '\u{2028}', '\u{2029}', '\u{202f}', '\u{205f}', '\u{3000}', '\u{85}']), gen::reference(Opt::new(Fam::Iri), full)).prop_map(|(front, ws, r)| {
			// a non-skipped white space character somewhere inside the path / query
			let p = r.find('/').map(|i| i + 1).unwrap_or(r.len());
			if front { format!("{}{ws}{}", &r[..p], &r[p..]) } else { format!("{r}{ws}x") }
		}),
		// any ucschar / iprivate scalar value somewhere in an otherwise plain IRI
		1 => (any::<char>(), 0u8..3).prop_map(|(c, slot)| match slot { 0 => format!("s:/a{c}b"), 1 => format!("s://h{c}/"), _ => format!("s:?{c}") }),
	];
	(value, select(vec![Spelling::Debug, Spelling::Debug, Spelling::Raw, Spelling::AllEscapes, Spelling::EscapeDefault, Spelling::EscapeDefault, Spelling::Continuation, Spelling::ContinuationRaw, Spelling::Multiline, Spelling::Multiline])).prop_map(|(value, spelling)| Lit { value, spelling }).boxed()
}

fn generate(mac: Mac, n: usize, seed: u64, batch: u64) -> Vec<Lit> {
	let mut sb = [0u8; 32];
	let mut h = std::collections::hash_map::DefaultHasher::new();
	(seed, batch, mac.name()).hash(&mut h);
	for i in 0..4 {
		let mut h2 = h.clone();
		i.hash(&mut h2);
		sb[i * 8..i * 8 + 8].copy_from_slice(&h2.finish().to_le_bytes());
	}
	let mut runner = TestRunner::new_with_rng(Config::default(), TestRng::from_seed(RngAlgorithm::ChaCha, &sb));
	let s = literal(mac);
	let mut out = vec![];
	let mut seen = HashSet::new();
	let mut guard = 0;
	while out.len() < n && guard < n * 20 {
		guard += 1;
		let l = s.new_tree(&mut runner).unwrap().current();
		// the library's source files must stay within what a Rust string literal can express
		if seen.insert((l.value.clone(), l.spelling)) {
			out.push(l)
		}
	}
	out
}

fn crate_dir() -> PathBuf {
	verif_root().join(".cache").join("c17").join("crate")
}

fn target_dir() -> PathBuf {
	verif_root().join(".cache").join("c17").join("target")
}

fn repo() -> String {
	std::env::var("VERIF_REPO").unwrap_or_else(|_| "/repo".into())
}

fn write_crate() -> std::io::Result<()> {
	let d = crate_dir();
	std::fs::create_dir_all(d.join("src").join("bin"))?;
	std::fs::write(
		d.join("Cargo.toml"),
		format!(
			"[package]\nname = \"c17gen\"\nversion = \"0.0.0\"\nedition = \"2021\"\npublish = false\n\n[dependencies]\niref = {{ path = \"{}\", features = [\"macros\"] }}\n\n[workspace]\n",
			repo()
		),
	)?;
	std::fs::copy(Path::new(&repo()).join("Cargo.lock"), d.join("Cargo.lock"))?;
	if !d.join("src").join("lib.rs").exists() {
		std::fs::write(d.join("src").join("lib.rs"), "")?;
	}
	Ok(())
}

fn cargo(args: &[&str]) -> std::io::Result<std::process::Output> {
	Command::new("cargo")
		.args(args)
		.current_dir(crate_dir())
		.env("CARGO_TARGET_DIR", target_dir())
		.env("CARGO_NET_OFFLINE", "true")
		.output()
}

/// Compiles `src/bin/<bin>.rs` and returns (success, error lines -> messages).
fn compile(bin: &str) -> Result<(bool, BTreeMap<usize, Vec<String>>, String), String> {
	let out = cargo(&["build", "--offline", "--message-format=json", "--bin", bin]).map_err(|e| format!("cannot run cargo: {e}"))?;
	let mut errs: BTreeMap<usize, Vec<String>> = BTreeMap::new();
	let stdout = String::from_utf8_lossy(&out.stdout);
	let mut other = String::new();
	for line in stdout.lines() {
		let v: serde_json::Value = match serde_json::from_str(line) {
			Ok(v) => v,
			Err(_) => continue,
		};
		if v["reason"] != "compiler-message" {
			continue;
		}
		let m = &v["message"];
		if m["level"] != "error" {
			continue;
		}
		let msg = m["message"].as_str().unwrap_or("").to_string();
		let mut placed = false;
		if let Some(spans) = m["spans"].as_array() {
			for sp in spans {
				let file = sp["file_name"].as_str().unwrap_or("");
				if file.ends_with(&format!("{bin}.rs")) {
					if let Some(l) = sp["line_start"].as_u64() {
						errs.entry(l as usize).or_default().push(msg.clone());
						placed = true;
						break;
					}
				}
			}
		}
		if !placed && !msg.starts_with("aborting due to") && !msg.starts_with("could not compile") {
			other.push_str(&msg);
			other.push('\n');
		}
	}
	if !out.status.success() && errs.is_empty() {
		other.push_str(&String::from_utf8_lossy(&out.stderr));
	}
	Ok((out.status.success(), errs, other))
}

pub struct Outcome {
	/// (macro, literal value, spelling) of each violating program, parallel to `violations`
	pub viol_lits: Vec<(String, String, String)>,
	pub programs: u64,
	pub nontrivial: BTreeSet<u64>,
	pub samples: Vec<serde_json::Value>,
	pub classes: BTreeMap<&'static str, u64>,
	pub violations: Vec<(String, String)>,
}

fn hash_lit(mac: Mac, l: &Lit) -> u64 {
	let mut h = std::collections::hash_map::DefaultHasher::new();
	(mac, &l.value, l.spelling).hash(&mut h);
	h.finish()
}

fn one_batch(mac: Mac, lits: &[Lit], out: &mut Outcome) -> Result<(), String> {
	let d = crate_dir();
	// Phase A: all invocations, one per line
	let bin_a = format!("a_{}", mac.name());
	let mut src = String::from("#![allow(dead_code)]\n");
	// a raw-string literal may span several lines: remember where each statement starts and ends
	let mut lines: Vec<(usize, usize)> = vec![];
	for (i, l) in lits.iter().enumerate() {
		let start = src.matches('\n').count() + 1;
		src.push_str(&format!("const C{i}: &'static ::iref::{} = ::iref::{}!({});\n", mac.ty_name(), mac.name(), render(l)));
		let end = src.matches('\n').count();
		lines.push((start, end));
	}
	src.push_str("fn main() {}\n");
	std::fs::write(d.join("src").join("bin").join(format!("{bin_a}.rs")), &src).map_err(|e| e.to_string())?;
	let (ok, errs, other) = compile(&bin_a)?;
	if !other.trim().is_empty() && errs.is_empty() && !ok {
		return Err(format!("generated program for {}! does not compile for an unrelated reason:\n{}", mac.name(), crate::engine::truncate(&other, 2000)));
	}
	let mut accepted: Vec<usize> = vec![];
	for (i, l) in lits.iter().enumerate() {
		let (l0, l1) = lines[i];
		let msgs_here: Vec<String> = errs.range(l0..=l1).flat_map(|(_, v)| v.iter().cloned()).collect();
		let rejected_ct = !msgs_here.is_empty();
		let exp_lib = lib_accepts(mac.ty(), &l.value);
		let exp_rfc = abnf::accepts_str(mac.ty(), &l.value);
		out.programs += 1;
		let h = hash_lit(mac, l);
		let escapes = l.value.chars().any(|c| c == '"' || c == '\\' || (c as u32) < 0x20 || c == '\u{7f}');
		if !l.value.is_ascii() || escapes || !exp_lib || l.spelling != Spelling::Debug {
			out.nontrivial.insert(h);
		}
		*out.classes.entry(if rejected_ct { "rejected-at-compile-time" } else { "accepted-at-compile-time" }).or_default() += 1;
		if !l.value.is_ascii() {
			*out.classes.entry("non-ascii-literal").or_default() += 1;
		}
		if escapes {
			*out.classes.entry("literal-needing-escapes").or_default() += 1;
		}
		*out.classes.entry(match l.spelling {
			Spelling::Debug => "spelling:debug-escaped",
			Spelling::Raw => "spelling:raw-string",
			Spelling::AllEscapes => "spelling:all-escapes",
			Spelling::EscapeDefault => "spelling:escape_default",
			Spelling::Continuation => "spelling:line-continuation",
			Spelling::ContinuationRaw => "spelling:line-continuation-raw",
			Spelling::Multiline => "spelling:multi-line-and-underscored-escapes",
		}).or_default() += 1;
		if out.samples.len() < 12 && (h % 7 == 0) {
			out.samples.push(serde_json::json!({"macro": mac.name(), "literal_source": render(l), "accepted_at_compile_time": !rejected_ct, "accepted_at_run_time": exp_lib}));
		}
		if exp_lib != exp_rfc {
			out.viol_lits.push((mac.name().to_string(), l.value.clone(), format!("{:?}", l.spelling))); out.violations.push((format!("{}!({})", mac.name(), render(l)), format!("run-time parser accepts = {exp_lib}, RFC grammar accepts = {exp_rfc} (C01 matter, seen from C17)")));
			continue;
		}
		if rejected_ct == exp_lib {
			let msgs = msgs_here.clone();
			out.viol_lits.push((mac.name().to_string(), l.value.clone(), format!("{:?}", l.spelling)));
			out.violations.push((
				format!("{}!({})", mac.name(), render(l)),
				if rejected_ct {
					format!("compile error {:?} although the run-time parser accepts {:?}", msgs, l.value)
				} else {
					format!("compiles although the run-time parser rejects {:?}", l.value)
				},
			));
			continue;
		}
		if rejected_ct {
			let msgs = msgs_here.clone();
			if !msgs.iter().any(|m| m.contains("invalid")) {
				out.viol_lits.push((mac.name().to_string(), l.value.clone(), format!("{:?}", l.spelling))); out.violations.push((format!("{}!({})", mac.name(), render(l)), format!("rejected, but not by the macro's own compile_error!: {:?}", msgs)));
			}
		} else {
			accepted.push(i);
		}
	}
	if accepted.is_empty() {
		return Ok(());
	}
	// Phase B: accepted literals only; compare each constant with the run-time parse
	let bin_b = format!("b_{}", mac.name());
	let mut src = String::from("#![allow(dead_code)]\n");
	for i in &accepted {
		src.push_str(&format!("const C{i}: &'static ::iref::{} = ::iref::{}!({});\n", mac.ty_name(), mac.name(), render(&lits[*i])));
	}
	let t = mac.ty_name();
	src.push_str(&format!(
		"fn check(i: usize, c: &'static ::iref::{t}, s: &'static str) {{\n\tlet r = match ::iref::{t}::new(s) {{ Ok(r) => r, Err(_) => {{ println!(\"BAD {{i}} run-time parser rejects\"); return }} }};\n\tif c.as_bytes() != s.as_bytes() {{ println!(\"BAD {{i}} text differs: {{:?}}\", c.as_str()); return }}\n\tif c != r {{ println!(\"BAD {{i}} constant != run-time value\"); return }}\n\tlet (a, b) = (c.parts(), r.parts());\n\tif a != b {{ println!(\"BAD {{i}} parts differ\"); return }}\n\tif format!(\"{{:?}}|{{:?}}|{{:?}}|{{:?}}\", c.authority().map(|x| x.as_str()), c.path().as_str(), c.query().map(|x| x.as_str()), c.fragment().map(|x| x.as_str())) != format!(\"{{:?}}|{{:?}}|{{:?}}|{{:?}}\", r.authority().map(|x| x.as_str()), r.path().as_str(), r.query().map(|x| x.as_str()), r.fragment().map(|x| x.as_str())) {{ println!(\"BAD {{i}} component texts differ\"); return }}\n\tprintln!(\"OK {{i}}\");\n}}\n"
	));
	src.push_str("fn main() {\n");
	for i in &accepted {
		src.push_str(&format!("\tcheck({i}, C{i}, {:?});\n", lits[*i].value));
	}
	src.push_str("}\n");
	std::fs::write(d.join("src").join("bin").join(format!("{bin_b}.rs")), &src).map_err(|e| e.to_string())?;
	let (ok, errs, other) = compile(&bin_b)?;
	if !ok {
		return Err(format!("program with the accepted literals of {}! does not compile: {:?} {}", mac.name(), errs, crate::engine::truncate(&other, 1500)));
	}
	let exe = target_dir().join("debug").join(&bin_b);
	let run = Command::new(&exe).output().map_err(|e| format!("cannot run {}: {e}", exe.display()))?;
	let stdout = String::from_utf8_lossy(&run.stdout);
	let mut seen = BTreeSet::new();
	for line in stdout.lines() {
		let mut it = line.splitn(3, ' ');
		let tag = it.next().unwrap_or("");
		let idx: usize = it.next().and_then(|x| x.parse().ok()).unwrap_or(usize::MAX);
		seen.insert(idx);
		if tag == "BAD" {
			let l = &lits[idx];
			out.viol_lits.push((mac.name().to_string(), l.value.clone(), format!("{:?}", l.spelling))); out.violations.push((format!("{}!({})", mac.name(), render(l)), format!("the 'static value is distinguishable from the run-time parse: {}", it.next().unwrap_or(""))));
		}
	}
	if !run.status.success() {
		out.violations.push((format!("{}! batch", mac.name()), format!("run-time failure of the program using the accepted constants: {}", crate::engine::truncate(&String::from_utf8_lossy(&run.stderr), 500))));
	}
	for i in &accepted {
		if !seen.contains(i) && run.status.success() {
			out.violations.push((format!("{}!({})", mac.name(), render(&lits[*i])), "no verdict printed".into()));
		}
	}
	Ok(())
}

fn grammar_stamp() -> String {
	// same idea as the driver's stamp: cargo does not track these files
	let mut h = std::collections::hash_map::DefaultHasher::new();
	let root = PathBuf::from(repo()).join("crates").join("core");
	let mut files: Vec<PathBuf> = vec![root.join("src/uri/grammar.abnf"), root.join("src/iri/grammar.abnf")];
	fn walk(d: &Path, out: &mut Vec<PathBuf>) {
		if let Ok(rd) = std::fs::read_dir(d) {
			for e in rd.flatten() {
				let p = e.path();
				if p.is_dir() {
					walk(&p, out)
				} else {
					out.push(p)
				}
			}
		}
	}
	walk(&root.join("automata"), &mut files);
	files.sort();
	for f in files {
		f.hash(&mut h);
		std::fs::read(&f).unwrap_or_default().hash(&mut h);
	}
	format!("{:016x}", h.finish())
}

pub fn run(tier: Tier, seed: u64) -> i32 {
	let t0 = Instant::now();
	if let Err(e) = crate::oracle::self_check() {
		eprintln!("harness self-check failed (exit 2): {e}");
		return 2;
	}
	if let Err(e) = write_crate() {
		eprintln!("cannot write the generated crate: {e}");
		return 2;
	}
	// stale-automaton guard for this target dir
	let stamp_file = verif_root().join(".cache").join("c17").join("grammar.stamp");
	let now = grammar_stamp();
	if std::fs::read_to_string(&stamp_file).ok().as_deref() != Some(now.as_str()) {
		let _ = cargo(&["clean", "--offline", "-p", "iref-core", "-p", "iref-macros", "-p", "iref"]);
	}
	let per_macro = tier.pick(250usize, 400);
	let batches = tier.pick(1u64, 12);
	let mut out = Outcome { viol_lits: vec![], programs: 0, nontrivial: BTreeSet::new(), samples: vec![], classes: BTreeMap::new(), violations: vec![] };
	// committed regression literals (regressions/C17-*.json) ride along with the first batch of their macro
	let mut reg: Vec<(Mac, Lit)> = vec![];
	if let Ok(rd) = std::fs::read_dir(verif_root().join("regressions")) {
		let mut files: Vec<PathBuf> = rd.flatten().map(|e| e.path()).filter(|p| p.file_name().and_then(|n| n.to_str()).map(|n| n.starts_with("C17-") && n.ends_with(".json")).unwrap_or(false)).collect();
		files.sort();
		for f in files {
			if let Ok(v) = serde_json::from_str::<serde_json::Value>(&std::fs::read_to_string(&f).unwrap_or_default()) {
				let mac = match v["macro"].as_str() { Some("uri") => Mac::Uri, Some("uri_ref") => Mac::UriRef, Some("iri") => Mac::Iri, Some("iri_ref") => Mac::IriRef, _ => continue };
				let spelling = match v["spelling"].as_str() { Some("Raw") => Spelling::Raw, Some("AllEscapes") => Spelling::AllEscapes, Some("EscapeDefault") => Spelling::EscapeDefault, Some("Continuation") => Spelling::Continuation, Some("ContinuationRaw") => Spelling::ContinuationRaw, Some("Multiline") => Spelling::Multiline, _ => Spelling::Debug };
				reg.push((mac, Lit { value: v["value"].as_str().unwrap_or("").to_string(), spelling }));
			}
		}
	}
	'outer: for b in 0..batches {
		for mac in MACS {
			let mut lits = generate(mac, per_macro, seed, b);
			if b == 0 {
				for (m, l) in &reg {
					if *m == mac && !lits.iter().any(|x| x.value == l.value && x.spelling == l.spelling) {
						lits.insert(0, l.clone());
					}
				}
			}
			if let Err(e) = one_batch(mac, &lits, &mut out) {
				println!("INCONCLUSIVE property=C17 {e}");
				return 2;
			}
			if !out.violations.is_empty() {
				break 'outer;
			}
		}
	}
	let _ = std::fs::write(&stamp_file, grammar_stamp());
	let wall = t0.elapsed().as_secs_f64();
	let evidence = serde_json::json!({
		"property_id": "C17",
		"tier": tier.name(),
		"seed": seed as i64,
		"level": "exploration",
		"coverage": {
			"evaluations": out.programs,
			"programs": out.programs,
			"distinct_nontrivial": out.nontrivial.len(),
			"rule": "one program = one macro invocation on one string literal (compiled in batches: one rustc run reports every compile_error! with its line; a second program holds the accepted constants and compares each with the run-time parse of the same string: text, ==, parts(), component texts). Literals: structural generator output of the macro's family, of the IRI family (non-ASCII, rejected by the URI macros), of the other kind (missing scheme), 1-2 edit mutants, and a fixed list needing escapes (quote, backslash, newline, NUL, CR, BOM); each rendered in one of three source spellings (Debug-escaped, raw string, all \\x / \\u{..} escapes). Oracle: rejected-at-compile-time set == set rejected by the run-time parser of the corresponding type (and by the independent RFC recogniser); rejection must come from the macro's compile_error!; no run-time failure; every 'static value indistinguishable from the run-time value. Non-trivial: non-ASCII literal, literal needing escapes, non-default spelling, or a rejected literal.",
			"samples": out.samples,
			"classes": out.classes,
			"compiler_runs": batches * 8,
			"exhaustive": false,
		},
		"assumptions": ["the compiler is part of the system under test; thousands, not millions, of programs per run", "rustc reports every error of a crate (no early abort) - checked: every rejected literal must have an error on its own line, every accepted one none"],
		"wall_s": wall,
		"violations": out.violations.len(),
	});
	let evdir = verif_root().join("evidence");
	let _ = std::fs::create_dir_all(&evdir);
	if std::fs::write(evdir.join("C17.json"), serde_json::to_string_pretty(&evidence).unwrap()).is_err() {
		eprintln!("cannot write evidence");
		return 2;
	}
	println!("C17 {} seed={} programs={} distinct_nontrivial={} wall={:.1}s", tier.name(), seed, out.programs, out.nontrivial.len(), wall);
	if !out.violations.is_empty() {
		let dir = verif_root().join("replays");
		let _ = std::fs::create_dir_all(&dir);
		for (k, (prog, why)) in out.violations.iter().enumerate().take(5) {
			let p = dir.join(format!("C17-{seed}-{k}.json"));
			let lit = out.viol_lits.get(k).cloned().unwrap_or_default();
			let _ = std::fs::write(&p, serde_json::to_string_pretty(&serde_json::json!({"property": "C17", "program": prog, "failure": why, "macro": lit.0, "value": lit.1, "spelling": lit.2})).unwrap());
			println!("failure: {prog} :: {why}");
			println!("VIOLATION property=C17 replay={}", p.display());
		}
		return 1;
	}
	println!("OK property=C17");
	0
}


/// Replays one saved C17 program (macro, literal value, spelling).
pub fn replay(path: &Path) -> i32 {
	let text = match std::fs::read_to_string(path) {
		Ok(t) => t,
		Err(e) => {
			eprintln!("cannot read {}: {e}", path.display());
			return 2;
		}
	};
	let v: serde_json::Value = match serde_json::from_str(&text) {
		Ok(v) => v,
		Err(e) => {
			eprintln!("cannot parse {}: {e}", path.display());
			return 2;
		}
	};
	let mac = match v["macro"].as_str() {
		Some("uri") => Mac::Uri,
		Some("uri_ref") => Mac::UriRef,
		Some("iri") => Mac::Iri,
		Some("iri_ref") => Mac::IriRef,
		_ => {
			eprintln!("replay file has no macro/value (batch-level failure?)");
			return 2;
		}
	};
	let value = v["value"].as_str().unwrap_or("").to_string();
	let spelling = match v["spelling"].as_str() {
		Some("Raw") => Spelling::Raw,
		Some("AllEscapes") => Spelling::AllEscapes,
		Some("EscapeDefault") => Spelling::EscapeDefault,
		Some("Continuation") => Spelling::Continuation,
		Some("ContinuationRaw") => Spelling::ContinuationRaw,
		Some("Multiline") => Spelling::Multiline,
		_ => Spelling::Debug,
	};
	if write_crate().is_err() {
		return 2;
	}
	let mut out = Outcome { viol_lits: vec![], programs: 0, nontrivial: BTreeSet::new(), samples: vec![], classes: BTreeMap::new(), violations: vec![] };
	let lit = Lit { value, spelling };
	println!("replay C17 program: {}!({})", mac.name(), render(&lit));
	if let Err(e) = one_batch(mac, &[lit], &mut out) {
		println!("INCONCLUSIVE property=C17 {e}");
		return 2;
	}
	if let Some((prog, why)) = out.violations.first() {
		println!("FAIL {prog} :: {why}");
		println!("VIOLATION property=C17 replay={}", path.display());
		return 1;
	}
	println!("PASS");
	0
}
