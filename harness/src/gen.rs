//! Generators: token pools, structural reference generator (G-REF), mutators
//! (G-MUT), equivalence variants (G-EQV).

use proptest::collection::vec;
use proptest::prelude::*;
use proptest::sample::select;
use serde::{Deserialize, Serialize};

use crate::oracle::split::{recompose, recompose_authority, AuthParts, Parts};

#[derive(Debug, Clone, Copy, PartialEq, Eq, Hash, Serialize, Deserialize, PartialOrd, Ord)]
pub enum Fam {
	Uri,
	Iri,
}

impl Fam {
	pub fn name(self) -> &'static str {
		match self {
			Fam::Uri => "uri",
			Fam::Iri => "iri",
		}
	}
}

pub fn fam() -> BoxedStrategy<Fam> {
	prop_oneof![Just(Fam::Uri), Just(Fam::Iri)].boxed()
}

fn sv(v: &[&str]) -> Vec<String> {
	v.iter().map(|s| s.to_string()).collect()
}

/// Options steering the pools.
#[derive(Debug, Clone, Copy)]
pub struct Opt {
	pub fam: Fam,
	/// allow `%XX` octets that are not well-formed UTF-8
	pub nonutf8: bool,
	/// also emit characters that the grammar does NOT allow at this place
	/// (private-use code points, delimiters of other components). Only used for
	/// arguments that are filtered through the library's own checked constructor
	/// afterwards: a constructor that wrongly accepts one lets the editing checks
	/// see the ill-formed buffer it produces.
	pub invalid: bool,
}

impl Opt {
	pub fn new(fam: Fam) -> Self {
		Opt { fam, nonutf8: false, invalid: false }
	}
	pub fn with_nonutf8(mut self, v: bool) -> Self {
		self.nonutf8 = v;
		self
	}
	pub fn with_invalid(mut self, v: bool) -> Self {
		self.invalid = v;
		self
	}
}

pub const PCT_UTF8: &[&str] = &[
	"%41", "%2F", "%2f", "%2E", "%2e%2E", "%3A", "%40", "%25", "%20", "%7E", "%C3%A9", "%c3%a9",
	"%E8%AA%9E", "%F0%90%80%80", "%00", "%7F", "%3F", "%23", "%5B",
];

pub const PCT_NONUTF8: &[&str] = &[
	"%FF", "%80", "%BF", "%C3", "%E8%AA", "%F0%90%80", "%C0%AF", "%C1%81", "%E0%80%AF",
	"%F0%80%80%AF", "%ED%A0%80", "%ED%BF%BF", "%F5%80%80%80", "%F4%90%80%80", "%FE", "%C3%28",
	"%A9%C3",
];

pub const NONASCII: &[&str] = &[
	"\u{e9}", "\u{8a9e}", "\u{10000}", "\u{a0}", "\u{d7ff}", "\u{f900}", "\u{fdcf}", "\u{fdf0}",
	"\u{ffef}", "\u{1fffd}", "\u{e1000}", "\u{efffd}", "\u{3b1}\u{3b2}",
	// UTF-8 trail bytes equal to '/', '?', '#', ':', '%', '@'-ish + 0x80 (C3 AF, C2 BF, C2 A3, C2 BA, C2 A5, E5 AF BA)
	"\u{ef}", "\u{bf}", "\u{a3}", "\u{ba}", "\u{a5}", "\u{5bfa}",
	// 4-byte characters of several planes (lead bytes F0, F1, F3)
	"\u{1f50d}", "\u{2a6d6}", "\u{3fffd}", "\u{40000}", "\u{dfffd}",
];

pub const IPRIVATE: &[&str] = &["\u{e000}", "\u{f8ff}", "\u{f0000}", "\u{ffffd}", "\u{100000}", "\u{10fffd}"];

fn pct_pool(o: Opt) -> Vec<String> {
	let mut v = sv(PCT_UTF8);
	if o.nonutf8 {
		v.extend(sv(PCT_NONUTF8));
	}
	v
}

/// Pieces a token may be assembled from, for the "raw" arm.
fn pieces(o: Opt, extra: &[&str]) -> Vec<String> {
	let mut v = sv(&[
		"a", "b", "Z", "0", "9", "-", ".", "_", "~", "!", "$", "&", "'", "(", ")", "*", "+", ",", ";", "=",
	]);
	v.extend(sv(extra));
	v.extend(pct_pool(o));
	if o.fam == Fam::Iri {
		v.extend(sv(NONASCII));
	}
	if o.invalid {
		v.extend(sv(&["\u{e000}", "\u{f8ff}", "\u{100000}", "\u{fffe}", "#", "?", "/", "[", "]", " ", "%", "\u{e9}"]));
	}
	v
}

fn raw(o: Opt, extra: &[&str], max: usize) -> BoxedStrategy<String> {
	vec(select(pieces(o, extra)), 0..=max).prop_map(|v| v.concat()).boxed()
}

fn pool(o: Opt, base: &[&str], iri_extra: &[&str], with_pct: bool) -> Vec<String> {
	let mut v = sv(base);
	if with_pct {
		v.extend(pct_pool(o));
	}
	if o.fam == Fam::Iri {
		v.extend(sv(iri_extra));
	}
	v
}

pub fn scheme() -> BoxedStrategy<String> {
	prop_oneof![
		18 => select(sv(&["a", "x", "http", "A", "a1+.-", "data", "urn", "Z9", "b.c", "file", "https", "ftp", "mailto", "ws", "FILE", "javascript", "blob", "about"])),
		3 => "[A-Za-z][A-Za-z0-9+.-]{0,12}".prop_map(|s| s),
		// long scheme names: code that "knows" how long a scheme can be
		1 => select(vec![30usize, 63, 64, 65, 126, 127, 128, 129, 255, 256, 257, 300, 1000]).prop_map(|n| format!("s{}", "x-".repeat(n / 2 + 1))[..n].to_string()),
	]
	.boxed()
}

pub fn segment(o: Opt) -> BoxedStrategy<String> {
	let p = pool(
		o,
		&[
			"a", "b", "", ".", "..", "a:b", ":", "1:b", "c", "@", "a;p=1", "~", "...", ".a", "a.", "..b",
			"x:", ":x", "a@b", "seg", "0", "+:", "a-b:c", "a.b:", "C:", "c:", "index.html", "localhost", "%2E", "%2e%2E", "...", "....", "..;", ";jsessionid=1", "a%2Fb", "%2F", "xn--bcher-kva",
		],
		&["\u{e9}:b", "\u{e9}", "\u{8a9e}", "\u{10000}", "\u{a0}\u{d7ff}"],
		true,
	);
	prop_oneof![
		8 => select(p),
		2 => raw(o, &[":", "@"], 6),
		1 => raw(o, &[":", "@"], 40),
	]
	.boxed()
}

/// Segment without dot segments, for places where ordinary names are wanted.
pub fn plain_segment(o: Opt) -> BoxedStrategy<String> {
	let p = pool(o, &["a", "b", "c", "d", "e", "a:b", "f.g", "~"], &["\u{e9}", "\u{8a9e}"], true);
	select(p).boxed()
}

pub const IPV6_POOL: &[&str] = &[
	"[::]", "[::1]", "[1::]", "[1:2:3:4:5:6:7:8]", "[1:2:3:4:5:6:1.2.3.4]", "[::1.2.3.4]", "[1::8]",
	"[1:2:3:4:5:6:7::]", "[::2:3:4:5:6:7:8]", "[1:2::7:8]", "[abcd:EF01::255.255.255.255]", "[1::2:3:4:5:6:7]",
	"[2001:db8::7]", "[::ffff:1.2.3.4]", "[v1.x]", "[vF.a:b]", "[v1a.~!$&'()*+,;=:]", "[V9.x]",
	// longer than any IPv6 text (45 bytes), with ':' late in the literal
	"[v1.aaaaaaaaaaaaaaaaaaaaaaaaaaaaaaaaaaaaaaaaaaaaaaaaaaaaaaaaaaaaaaaa:b]", "[vABCDEF0123456789.x:y:z:aaaaaaaaaaaaaaaaaaaaaaaaaaaaaaaaaaaaaaaaaaaaaa:1:2]",
	"[aaaa:bbbb:cccc:dddd:eeee:ffff:255.255.255.255]", "[0000:0000:0000:0000:0000:0000:0000:0000]",
	// IPvFuture with a long all-letter version (no byte <= '@' for 16 bytes) and ':' in the address part
	"[vABCDEFabcdefAB.x:y]", "[vabcdefABCDEFabcdefABCDEF.a:b:c]",
];

/// Hosts that are NOT valid (or valid only in one family) but close to valid ones; used where
/// inputs are filtered through the library's own constructors.
pub const NEAR_VALID_HOSTS: &[&str] = &[
	"[fe80::1%25eth0]", "[::1%eth0]", "[1:2:3:4:5:6:7::8]", "[1:2:3:4:5:6:7::]", "[::256.1.1.1]", "[::1.2.3.4.5]", "[v.a]", "[v1.]", "[::12345]", "[1:2:3:4:5:6:7:8:9]", "[::1]x", "[::1", "::1]",
	"256.256.256.256", "1.2.3.4.", "h:x", "[::ffff:192.168.1.256]", "[::ffff:01.2.3.4]", "[0:0:0:0:0:0:0:0:0]", "[vG.x]", "[V1.\u{e9}]", "[v1.%41]", "[v7.a%2Fb]", "[V1f.x%00]", "[::1%25]", "[1:2:3:4:5:6:7:abc`]",
];

pub fn host(o: Opt) -> BoxedStrategy<String> {
	let mut p = pool(
		o,
		&["", "h", "example.org", "127.0.0.1", "999.1.1.1", "1.2.3", "a-b.c", "localhost", "0", "h~!$&'()*+,;="],
		&["\u{e9}", "r\u{e9}sum\u{e9}.example", "\u{8a9e}"],
		true,
	);
	p.extend(sv(IPV6_POOL));
	prop_oneof![
		8 => select(p),
		2 => raw(o, &[], 8),
	]
	.boxed()
}

pub fn userinfo(o: Opt) -> BoxedStrategy<String> {
	// passwords that look like ports, names that look like hosts, and many ':' (a list of delimiters kept
	// in a small inline buffer overflows)
	let p = pool(o, &["", "u", "u:p", ":", "a:b:c", "user", "u:", ":p", "a;b=c", "1", "user:12345", "u:65535", ":8080", "12345", "u:0", "u:123456", "example.org:80", "a:b:c:d:e:f:g:h:i:j", "1:2:3:4:5:6:7:8:9:10:11:12:13:14:15:16:17", "::::::::::::::::::::"], &["\u{e9}", "\u{e9}:\u{8a9e}"], true);
	prop_oneof![
		8 => select(p),
		2 => raw(o, &[":"], 8),
		1 => ("[a-z]{0,4}", "[0-9]{1,7}").prop_map(|(u, d)| format!("{u}:{d}")),
		1 => (1usize..40).prop_map(|n| vec!["x"; n].join(":")),
	]
	.boxed()
}

pub fn port() -> BoxedStrategy<String> {
	prop_oneof![
		8 => select(sv(&["", "0", "80", "00080", "8080", "65536", "123456789012345678901234567890", "1"])),
		1 => "[0-9]{0,8}".prop_map(|s| s),
	]
	.boxed()
}

/// Long text (> 512 bytes) with a percent-escape straddling a 512-byte boundary.
fn long_with_escape(o: Opt) -> BoxedStrategy<String> {
	(select(vec![505usize, 508, 509, 510, 511, 512, 513, 1020, 1021, 1022, 1023, 1024]), select(pct_pool(o)), 0usize..40)
		.prop_map(|(n, esc, tail)| format!("{}{}{}", "q".repeat(n), esc, "t".repeat(tail)))
		.boxed()
}

pub fn query(o: Opt) -> BoxedStrategy<String> {
	let p = pool(
		o,
		&["", "q", "a=b&c", "/", "?", ":", "@", "a/b?c", "//", "x:y", "a/../b", "?#".trim_end_matches('#'), "k=v", "/./"],
		&["\u{e9}", "\u{e000}", "\u{f8ff}\u{10fffd}", "\u{8a9e}=\u{f0000}"],
		true,
	);
	prop_oneof![
		32 => select(p),
		8 => raw(o, &[":", "@", "/", "?"], 10),
		1 => long_with_escape(o),
	]
	.boxed()
}

pub fn fragment(o: Opt) -> BoxedStrategy<String> {
	let p = pool(
		o,
		// incl. tokens that browsers and frameworks give a meaning of their own (text-fragment directive, hash-bang
		// routes, a "second URL" after the hash)
		&["", "f", "a/b", "?", "/", ":", "@", "x?y/z", "//", "a:b", "../", "frag", "intro:~:text=hello", ":~:text=a,b", "!/route/1", "/path?x=1&y=2", "http://other/?q", "top:~:", "a=b&c=d", "%23", "L10-L20"],
		&["\u{e9}", "\u{8a9e}/\u{10000}"],
		true,
	);
	prop_oneof![
		32 => select(p),
		8 => raw(o, &[":", "@", "/", "?"], 10),
		1 => long_with_escape(o),
	]
	.boxed()
}

pub fn opt_of(s: BoxedStrategy<String>, p_some: u32) -> BoxedStrategy<Option<String>> {
	prop_oneof![
		(10 - p_some.min(9)) => Just(None),
		p_some => s.prop_map(Some),
	]
	.boxed()
}

pub fn auth_parts(o: Opt) -> BoxedStrategy<AuthParts> {
	(opt_of(userinfo(o), 4), host(o), opt_of(port(), 4))
		.prop_map(|(userinfo, host, port)| AuthParts { userinfo, host, port })
		.boxed()
}

pub fn authority(o: Opt) -> BoxedStrategy<String> {
	auth_parts(o).prop_map(|p| recompose_authority(&p)).boxed()
}

/// Segment list with size knobs: mostly short, a fixed fraction long (> 16
/// segments, > 512 bytes).
pub fn segments(o: Opt) -> BoxedStrategy<Vec<String>> {
	prop_oneof![
		80 => vec(segment(o), 0..=5),
		12 => vec(segment(o), 6..=14),
		5 => vec(segment(o), 17..=40),
		3 => (vec(segment(o), 1..=6), 8usize..30).prop_map(|(v, k)| {
			// long: repeat to exceed 512 bytes
			let mut out = vec![];
			for _ in 0..k {
				for s in &v {
					out.push(format!("{s}{}", "longsegment-".repeat(2)));
				}
			}
			out
		}),
	]
	.boxed()
}

/// Segment lists rich in dot and empty segments (for normalisation / resolution).
pub fn dotty_segments(o: Opt) -> BoxedStrategy<Vec<String>> {
	let one = prop_oneof![
		8 => select(sv(&[".", "..", "", ".."])),
		1 => select(sv(&["%2E%2E", ".%2e", "%2e", "%2E.", "a:b", ":"])),
		8 => plain_segment(o),
		2 => segment(o),
	];
	prop_oneof![
		80 => vec(one.clone(), 0..=6),
		14 => vec(one.clone(), 7..=24),
		// beyond the 512-byte inline buffer: a dot-rich head, a long plain tail, a dot-rich end
		4 => (vec(one.clone(), 0..=5), 40usize..90, vec(one.clone(), 0..=3)).prop_map(|(head, n, tail)| {
			let mut v = head;
			for i in 0..n {
				v.push(format!("seg{:04}x", i));
			}
			v.extend(tail);
			v
		}),
		// a long run that cancels itself exactly (n names, n '..'), so that the normal form of
		// a > 512-byte path is decided by the few segments after it (including the lone empty segment)
		2 => (60usize..100, vec(one, 0..=3)).prop_map(|(n, tail)| {
			let mut v = vec![];
			for i in 0..n {
				v.push(format!("c{:03}", i));
			}
			for _ in 0..n {
				v.push("..".to_string());
			}
			v.extend(tail);
			v
		}),
	]
	.boxed()
}

/// Fix up a (abs, segs) pair so that its rendering is a stand-alone relative or
/// absolute path with exactly these segments under R-SEGS.
pub fn path_text(abs: bool, segs: &[String]) -> String {
	let mut s = segs.to_vec();
	if !abs {
		// a relative path cannot start with an empty segment followed by others
		// ("" + "/" + ...) would be absolute; a single empty segment is "no segments".
		while !s.is_empty() && s[0].is_empty() {
			s.remove(0);
		}
	} else if s.len() == 1 && s[0].is_empty() {
		// "/" + "" = "/" has no segments
		s.clear();
	}
	crate::oracle::split::render(abs, &s)
}

/// Stand-alone path text (any of the five path forms, including `//x` and `a:b`).
pub fn path(o: Opt) -> BoxedStrategy<String> {
	(any::<bool>(), segments(o)).prop_map(|(abs, s)| path_text(abs, &s)).boxed()
}

#[derive(Debug, Clone, PartialEq, Eq, Hash, Serialize, Deserialize)]
pub struct Ref {
	pub fam: Fam,
	pub text: String,
}

/// Repairs (by construction) a component tuple into a derivable reference.
pub fn repair(mut p: Parts, abs: bool, segs: Vec<String>, full: bool) -> Parts {
	if full && p.scheme.is_none() {
		p.scheme = Some("s".into());
	}
	let mut path = path_text(abs, &segs);
	if p.authority.is_some() {
		if !path.is_empty() && !path.starts_with('/') {
			path.insert(0, '/');
		}
	} else {
		if path.starts_with("//") {
			// shield
			path.insert_str(0, "/.");
		}
		if p.scheme.is_none() {
			let first = path.split('/').next().unwrap_or("");
			if !path.starts_with('/') && first.contains(':') {
				path.insert_str(0, "./");
			}
		}
	}
	p.path = path;
	p
}

pub fn ref_parts(o: Opt, full: bool) -> BoxedStrategy<Parts> {
	ref_parts_with(o, full, segments(o), 6, 5)
}

/// Like `ref_parts` with a custom segment strategy and presence weights (out of 10).
pub fn ref_parts_with(o: Opt, full: bool, segs: BoxedStrategy<Vec<String>>, p_scheme: u32, p_auth: u32) -> BoxedStrategy<Parts> {
	let fam = o.fam;
	(
		opt_of(scheme(), p_scheme),
		opt_of(authority(o), p_auth),
		any::<bool>(),
		segs,
		opt_of(query(o), 4),
		opt_of(fragment(o), 4),
		// 4 %: stretch a component so that its end (and so the next delimiter) lands on a block boundary
		prop_oneof![24 => Just(None), 1 => (select(BOUNDARIES.to_vec()), any::<u8>(), any::<bool>()).prop_map(Some)],
	)
		.prop_map(move |(scheme, authority, abs, segs, query, fragment, st)| {
			let p = repair(Parts { scheme, authority, path: String::new(), query, fragment }, abs, segs, full);
			match st {
				None => p,
				Some((target, which, multibyte)) => stretch(p, target, which, if multibyte && fam == Fam::Iri { "\u{8a9e}" } else { "x" }),
			}
		})
		.boxed()
}

/// Offsets at which block-wise scanners tend to go wrong.
pub const BOUNDARIES: &[usize] = &[15, 16, 17, 63, 64, 255, 256, 510, 511, 512, 513, 1023, 1024, 1025, 2047, 2048, 4095, 4096, 4097, 8191, 8192];

/// Pads the path (which = 0), the query (1) or the authority (2) of `p` with
/// filler so that the END of that component lands exactly on byte offset
/// `target` of the recomposed text (when it is not already beyond it).
pub fn stretch(mut p: Parts, target: usize, which: u8, filler: &str) -> Parts {
	let head = |p: &Parts| p.scheme.as_ref().map(|s| s.len() + 1).unwrap_or(0) + p.authority.as_ref().map(|a| a.len() + 2).unwrap_or(0);
	let unit = filler.len().max(1);
	match which % 3 {
		0 => {
			let end = head(&p) + p.path.len();
			if end < target {
				let mut need = target - end;
				if p.path.is_empty() || p.path.ends_with("/.") || p.path.ends_with("/..") || p.path == "." || p.path == ".." {
					if p.authority.is_some() || !p.path.is_empty() {
						p.path.push('/');
						need = need.saturating_sub(1);
					}
				}
				for _ in 0..need / unit {
					p.path.push_str(filler)
				}
				for _ in 0..need % unit {
					p.path.push('x')
				}
			}
		}
		1 => {
			let base = head(&p) + p.path.len() + 1;
			if let Some(q) = p.query.as_mut() {
				let end = base + q.len();
				if end < target {
					let need = target - end;
					for _ in 0..need / unit {
						q.push_str(filler)
					}
					for _ in 0..need % unit {
						q.push('x')
					}
				}
			}
		}
		_ => {
			if let Some(a) = p.authority.clone() {
				let mut ap = crate::oracle::split::split_authority(&a);
				let end = head(&p);
				if end < target && !ap.host.starts_with('[') {
					let need = target - end;
					for _ in 0..need {
						ap.host.push('h')
					}
					p.authority = Some(recompose_authority(&ap));
				}
			}
		}
	}
	p
}

/// G-REF: reference text (URI-reference / IRI-reference, or full URI / IRI when `full`).
pub fn reference(o: Opt, full: bool) -> BoxedStrategy<String> {
	ref_parts(o, full).prop_map(|p| recompose(&p)).boxed()
}

pub fn any_ref(full: bool, nonutf8: bool) -> BoxedStrategy<Ref> {
	fam()
		.prop_flat_map(move |f| {
			reference(Opt::new(f).with_nonutf8(nonutf8), full).prop_map(move |text| Ref { fam: f, text })
		})
		.boxed()
}

// ---------------------------------------------------------------------------
// G-MUT
// ---------------------------------------------------------------------------

pub const MUT_CHARS: &[&str] = &[
	":", "/", "?", "#", "[", "]", "@", "%", "%4", "%4G", "%G1", "%41", " ", "\t", "\n", "\u{0}", "\u{7f}", "\"", "<", ">", "\\",
	"^", "`", "{", "|", "}", "a", "G", "0", ".", "..", "//", "::", "\u{80}", "\u{9f}", "\u{a0}", "\u{d7ff}", "\u{e000}",
	"\u{f8ff}", "\u{f900}", "\u{fdcf}", "\u{fdd0}", "\u{fdef}", "\u{fdf0}", "\u{ffef}", "\u{fff0}", "\u{fffd}", "\u{fffe}",
	"\u{ffff}", "\u{10000}", "\u{1fffd}", "\u{1fffe}", "\u{e0000}", "\u{e0fff}", "\u{e1000}", "\u{efffd}", "\u{efffe}",
	"\u{f0000}", "\u{ffffd}", "\u{ffffe}", "\u{100000}", "\u{10fffd}", "\u{10fffe}", "\u{10ffff}", "\u{e9}",
];

#[derive(Debug, Clone, PartialEq, Eq, Hash, Serialize, Deserialize)]
pub enum Edit {
	Delete(u16),
	Insert(u16, String),
	Replace(u16, String),
	Duplicate(u16),
	Swap(u16, u16),
	Truncate(u16),
}

pub fn edit() -> BoxedStrategy<Edit> {
	let ch = || select(sv(MUT_CHARS));
	prop_oneof![
		any::<u16>().prop_map(Edit::Delete),
		(any::<u16>(), ch()).prop_map(|(i, c)| Edit::Insert(i, c)),
		(any::<u16>(), ch()).prop_map(|(i, c)| Edit::Replace(i, c)),
		any::<u16>().prop_map(Edit::Duplicate),
		(any::<u16>(), any::<u16>()).prop_map(|(i, j)| Edit::Swap(i, j)),
		any::<u16>().prop_map(Edit::Truncate),
	]
	.boxed()
}

fn idx(i: u16, len: usize) -> usize {
	// monotone index mapping into 0..len (len may be 0 -> 0)
	((i as usize) * (len + 1)) >> 16
}

/// Applies char-level edits.
pub fn apply_edits(s: &str, edits: &[Edit]) -> String {
	let mut v: Vec<char> = s.chars().collect();
	for e in edits {
		match e {
			Edit::Delete(i) => {
				if !v.is_empty() {
					let k = idx(*i, v.len() - 1);
					v.remove(k);
				}
			}
			Edit::Insert(i, c) => {
				let k = idx(*i, v.len());
				for (n, ch) in c.chars().enumerate() {
					v.insert(k + n, ch);
				}
			}
			Edit::Replace(i, c) => {
				if !v.is_empty() {
					let k = idx(*i, v.len() - 1);
					v.remove(k);
					for (n, ch) in c.chars().enumerate() {
						v.insert(k + n, ch);
					}
				}
			}
			Edit::Duplicate(i) => {
				if !v.is_empty() {
					let k = idx(*i, v.len() - 1);
					let ch = v[k];
					v.insert(k, ch);
				}
			}
			Edit::Swap(i, j) => {
				if v.len() >= 2 {
					let a = idx(*i, v.len() - 1);
					let b = idx(*j, v.len() - 1);
					v.swap(a, b);
				}
			}
			Edit::Truncate(i) => {
				let k = idx(*i, v.len());
				v.truncate(k);
			}
		}
	}
	v.into_iter().collect()
}

// ---------------------------------------------------------------------------
// G-EQV: metamorphic variants
// ---------------------------------------------------------------------------

#[derive(Debug, Clone, PartialEq, Eq, Hash, Serialize, Deserialize)]
pub enum Variant {
	/// pct-encode the k-th encodable character (upper or lower hex)
	Encode(u16, bool),
	/// decode the k-th `%XX` of an unreserved character
	DecodeUnreserved(u16),
	/// flip hex case of the k-th `%XX`
	HexCase(u16),
	/// insert `./` before the k-th segment
	InsertDot(u16),
	/// insert `x/../` before the k-th segment
	InsertUpDown(u16),
	/// replace trailing `/` by `/.`
	TrailingDot,
	// near misses
	SchemeCase,
	AppendSlash,
	PortLeadingZero,
	ToggleEmptyQuery,
	ToggleEmptyFragment,
	ToggleEmptyUserinfo,
	ToggleEmptyPort,
	HostCase,
	SwapSegments(u16),
	AppendSegment,
	/// percent-encode EVERY character of the host that is not unreserved (an
	/// IP-literal becomes a registered name that decodes to the same octets)
	EncodeWholeHost(bool),
	/// percent-encode a DELIMITER inside the authority (':' before the port or '@' after the
	/// user info): a near miss - `h%3A80` is a host without port, not `h:80`
	EncodeDelimiter(u8),
	/// authority absent <-> present-but-empty
	ToggleEmptyAuthority,
	/// replace the query / the fragment by another small value (near miss; two of them
	/// in a row order query and fragment in opposite directions)
	ChangeQuery(u8),
	ChangeFragment(u8),
	/// join segments k and k+1 with a character that sorts below '/' (near miss
	/// that distinguishes byte order from segment order)
	MergeSegments(u16, u8),
}

pub fn variant() -> BoxedStrategy<Variant> {
	prop_oneof![
		4 => (any::<u16>(), any::<bool>()).prop_map(|(k, u)| Variant::Encode(k, u)),
		2 => any::<u16>().prop_map(Variant::DecodeUnreserved),
		2 => any::<u16>().prop_map(Variant::HexCase),
		3 => any::<u16>().prop_map(Variant::InsertDot),
		3 => any::<u16>().prop_map(Variant::InsertUpDown),
		1 => Just(Variant::TrailingDot),
		1 => Just(Variant::SchemeCase),
		1 => Just(Variant::AppendSlash),
		1 => Just(Variant::PortLeadingZero),
		1 => Just(Variant::ToggleEmptyQuery),
		1 => Just(Variant::ToggleEmptyFragment),
		1 => Just(Variant::ToggleEmptyUserinfo),
		1 => Just(Variant::ToggleEmptyPort),
		1 => Just(Variant::HostCase),
		1 => any::<u16>().prop_map(Variant::SwapSegments),
		1 => Just(Variant::AppendSegment),
		2 => (any::<u16>(), any::<u8>()).prop_map(|(k, c)| Variant::MergeSegments(k, c)),
		1 => any::<bool>().prop_map(Variant::EncodeWholeHost),
		1 => Just(Variant::ToggleEmptyAuthority),
		1 => any::<u8>().prop_map(Variant::EncodeDelimiter),
		1 => any::<u8>().prop_map(Variant::ChangeQuery),
		1 => any::<u8>().prop_map(Variant::ChangeFragment),
	]
	.boxed()
}

fn is_unreserved(c: char) -> bool {
	c.is_ascii_alphanumeric() || matches!(c, '-' | '.' | '_' | '~')
}

/// Percent-encode the k-th char of `s` that may be encoded without changing the
/// structure (any char that is not `%` and not part of an escape).  `.` is not
/// encoded when the whole token is a dot segment (that would change meaning).
fn encode_kth(s: &str, k: u16, upper: bool) -> String {
	if s == "." || s == ".." {
		return s.to_string();
	}
	let chars: Vec<(usize, char)> = s.char_indices().collect();
	// positions not inside an escape
	let mut cand = vec![];
	let mut i = 0;
	while i < chars.len() {
		if chars[i].1 == '%' {
			i += 3;
			continue;
		}
		cand.push(i);
		i += 1;
	}
	if cand.is_empty() {
		return s.to_string();
	}
	let pick = cand[idx(k, cand.len() - 1)];
	let mut out = String::new();
	for (n, (_, c)) in chars.iter().enumerate() {
		if n == pick {
			let mut buf = [0u8; 4];
			for b in c.encode_utf8(&mut buf).bytes() {
				if upper {
					out.push_str(&format!("%{:02X}", b))
				} else {
					out.push_str(&format!("%{:02x}", b))
				}
			}
		} else {
			out.push(*c)
		}
	}
	out
}

fn escapes(s: &str) -> Vec<usize> {
	let b = s.as_bytes();
	let mut v = vec![];
	let mut i = 0;
	while i + 2 < b.len() {
		if b[i] == b'%' && b[i + 1].is_ascii_hexdigit() && b[i + 2].is_ascii_hexdigit() {
			v.push(i);
			i += 3
		} else {
			i += 1
		}
	}
	v
}

fn decode_kth_unreserved(s: &str, k: u16) -> String {
	let es: Vec<usize> = escapes(s)
		.into_iter()
		.filter(|i| {
			let v = u8::from_str_radix(&s[i + 1..i + 3], 16).unwrap();
			v < 128 && is_unreserved(v as char) && v != b'.'
		})
		.collect();
	if es.is_empty() {
		return s.to_string();
	}
	let i = es[idx(k, es.len() - 1)];
	let v = u8::from_str_radix(&s[i + 1..i + 3], 16).unwrap();
	format!("{}{}{}", &s[..i], v as char, &s[i + 3..])
}

fn hexcase_kth(s: &str, k: u16) -> String {
	let es = escapes(s);
	if es.is_empty() {
		return s.to_string();
	}
	let i = es[idx(k, es.len() - 1)];
	let h = &s[i + 1..i + 3];
	let flipped: String = h
		.chars()
		.map(|c| if c.is_ascii_lowercase() { c.to_ascii_uppercase() } else { c.to_ascii_lowercase() })
		.collect();
	format!("{}%{}{}", &s[..i], flipped, &s[i + 3..])
}

/// Applies a variant to reference parts; the result is repaired into a valid
/// reference of the same family when a structural change could break validity.
/// The *expected* verdict is NOT derived from the variant kind — callers compute
/// it with R-EQUIV.
pub fn apply_variant(p: &Parts, v: &Variant) -> Parts {
	use crate::oracle::split::{segs, split_authority};
	let mut q = p.clone();
	let (abs, mut sg) = segs(&p.path);
	let set_path = |q: &mut Parts, abs: bool, sg: Vec<String>| {
		let r = repair(
			Parts { scheme: q.scheme.clone(), authority: q.authority.clone(), path: String::new(), query: None, fragment: None },
			abs || q.authority.is_some() && !sg.is_empty(),
			sg,
			false,
		);
		q.path = r.path;
	};
	match v {
		Variant::Encode(k, up) => {
			// choose component by k's low bits
			match k % 5 {
				0 if !sg.is_empty() => {
					let i = idx(k.wrapping_mul(31), sg.len() - 1);
					sg[i] = encode_kth(&sg[i], *k, *up);
					set_path(&mut q, abs, sg);
				}
				1 if q.query.is_some() => q.query = q.query.map(|x| encode_kth(&x, *k, *up)),
				2 if q.fragment.is_some() => q.fragment = q.fragment.map(|x| encode_kth(&x, *k, *up)),
				3 | 4 if q.authority.is_some() => {
					let mut a = split_authority(q.authority.as_ref().unwrap());
					if k % 5 == 3 && !a.host.starts_with('[') {
						a.host = encode_kth(&a.host, *k, *up);
					} else if let Some(u) = &a.userinfo {
						a.userinfo = Some(encode_kth(u, *k, *up));
					}
					q.authority = Some(recompose_authority(&a));
				}
				_ => {
					if !sg.is_empty() {
						let i = idx(k.wrapping_mul(31), sg.len() - 1);
						sg[i] = encode_kth(&sg[i], *k, *up);
						set_path(&mut q, abs, sg);
					}
				}
			}
		}
		Variant::DecodeUnreserved(k) => {
			if !sg.is_empty() {
				let i = idx(k.wrapping_mul(31), sg.len() - 1);
				sg[i] = decode_kth_unreserved(&sg[i], *k);
				set_path(&mut q, abs, sg);
			}
			q.query = q.query.map(|x| decode_kth_unreserved(&x, *k));
		}
		Variant::HexCase(k) => {
			q.path = hexcase_kth(&q.path, *k);
			q.query = q.query.map(|x| hexcase_kth(&x, *k));
			q.fragment = q.fragment.map(|x| hexcase_kth(&x, *k));
			q.authority = q.authority.map(|x| if x.contains('[') { x } else { hexcase_kth(&x, *k) });
		}
		Variant::InsertDot(k) => {
			let i = idx(*k, sg.len());
			sg.insert(i, ".".into());
			set_path(&mut q, abs, sg);
		}
		Variant::InsertUpDown(k) => {
			let i = idx(*k, sg.len());
			sg.insert(i, "..".into());
			sg.insert(i, "x".into());
			set_path(&mut q, abs, sg);
		}
		Variant::TrailingDot => {
			if sg.last().map(|s| s.is_empty()).unwrap_or(false) {
				let n = sg.len();
				sg[n - 1] = ".".into();
				set_path(&mut q, abs, sg);
			}
		}
		Variant::SchemeCase => {
			q.scheme = q.scheme.map(|s| {
				s.chars()
					.map(|c| if c.is_ascii_lowercase() { c.to_ascii_uppercase() } else { c.to_ascii_lowercase() })
					.collect()
			});
		}
		Variant::AppendSlash => {
			sg.push(String::new());
			set_path(&mut q, abs, sg);
		}
		Variant::PortLeadingZero => {
			if let Some(a) = &q.authority {
				let mut ap = split_authority(a);
				if let Some(pt) = &ap.port {
					ap.port = Some(format!("0{pt}"));
					q.authority = Some(recompose_authority(&ap));
				}
			}
		}
		Variant::ToggleEmptyQuery => {
			q.query = match q.query.as_deref() {
				None => Some(String::new()),
				Some("") => None,
				Some(x) => Some(x.to_string()),
			}
		}
		Variant::ToggleEmptyFragment => {
			q.fragment = match q.fragment.as_deref() {
				None => Some(String::new()),
				Some("") => None,
				Some(x) => Some(x.to_string()),
			}
		}
		Variant::ToggleEmptyUserinfo => {
			if let Some(a) = &q.authority {
				let mut ap = split_authority(a);
				ap.userinfo = match ap.userinfo.as_deref() {
					None => Some(String::new()),
					Some("") => None,
					Some(x) => Some(x.to_string()),
				};
				q.authority = Some(recompose_authority(&ap));
			}
		}
		Variant::ToggleEmptyPort => {
			if let Some(a) = &q.authority {
				let mut ap = split_authority(a);
				ap.port = match ap.port.as_deref() {
					None => Some(String::new()),
					Some("") => None,
					Some(x) => Some(x.to_string()),
				};
				q.authority = Some(recompose_authority(&ap));
			}
		}
		Variant::HostCase => {
			if let Some(a) = &q.authority {
				let mut ap = split_authority(a);
				// IP-literals included: `[::a]` and `[::A]` are different hosts for this library (no RFC 5952 folding)
				if !ap.host.contains('%') {
					ap.host = ap
						.host
						.chars()
						.map(|c| if c.is_ascii_lowercase() { c.to_ascii_uppercase() } else { c.to_ascii_lowercase() })
						.collect();
					q.authority = Some(recompose_authority(&ap));
				}
			}
		}
		Variant::SwapSegments(k) => {
			if sg.len() >= 2 {
				let i = idx(*k, sg.len() - 2);
				sg.swap(i, i + 1);
				set_path(&mut q, abs, sg);
			}
		}
		Variant::AppendSegment => {
			sg.push("z".into());
			set_path(&mut q, abs, sg);
		}
		Variant::EncodeDelimiter(k) => {
			if let Some(a) = &q.authority {
				let which = if k % 2 == 0 { ':' } else { '@' };
				// only outside an IP-literal
				let close = a.rfind(']').map(|i| i + 1).unwrap_or(0);
				let pos = if which == '@' { a.find('@') } else { a[close..].rfind(':').map(|i| i + close) };
				if let Some(i) = pos {
					let enc = if which == ':' { if k % 4 < 2 { "%3A" } else { "%3a" } } else { "%40" };
					q.authority = Some(format!("{}{}{}", &a[..i], enc, &a[i + 1..]));
				}
			}
		}
		Variant::ToggleEmptyAuthority => {
			match q.authority.as_deref() {
				None => {
					q.authority = Some(String::new());
					set_path(&mut q, abs, sg);
				}
				Some("") => {
					q.authority = None;
					set_path(&mut q, abs, sg);
				}
				_ => {}
			}
		}
		Variant::ChangeQuery(k) => q.query = Some(["0", "1", "2", "a", "b", "", "z"][*k as usize % 7].to_string()),
		Variant::ChangeFragment(k) => q.fragment = Some(["0", "1", "2", "a", "b", "", "z"][*k as usize % 7].to_string()),
		Variant::EncodeWholeHost(upper) => {
			if let Some(a) = &q.authority {
				let mut ap = split_authority(a);
				let mut h = String::new();
				for c in ap.host.chars() {
					if c == '%' || is_unreserved(c) || !c.is_ascii() {
						h.push(c)
					} else if *upper {
						h.push_str(&format!("%{:02X}", c as u32))
					} else {
						h.push_str(&format!("%{:02x}", c as u32))
					}
				}
				ap.host = h;
				q.authority = Some(recompose_authority(&ap));
			}
		}
		Variant::MergeSegments(k, c) => {
			if sg.len() >= 2 {
				let i = idx(*k, sg.len() - 2);
				let joiner = ["-", "+", ",", "!", "$", "&", "'", "(", ")", "*", ".", "~", "0", "A"][*c as usize % 14];
				let merged = format!("{}{}{}", sg[i], joiner, sg[i + 1]);
				sg[i] = merged;
				sg.remove(i + 1);
				set_path(&mut q, abs, sg);
			}
		}
	}
	q
}


/// Sizes for the "huge argument" blocks: above every size-class threshold a
/// real implementation might special-case (64 KiB, 1 MiB, ...).
pub fn huge_sizes(tier: crate::engine::Tier) -> Vec<usize> {
	match tier {
		crate::engine::Tier::Quick => vec![(1 << 20) + 3, 2 << 20],
		crate::engine::Tier::Thorough => vec![65_537, 1 << 19, (1 << 20) - 1, 1 << 20, (1 << 20) + 3, 2 << 20, 3 << 20, (8 << 20) + 1, (17 << 20) + 5, (33 << 20) + 1],
	}
}

/// Lengths for "every length" sweeps: all of 0..=dense, every 97th up to `sparse`, and around every
/// number people pick as a limit (powers of two, 1000s, 2083, 8190, 10 240 k, 65 535) below `sparse`.
pub fn sweep_lengths(dense: usize, sparse: usize) -> Vec<usize> {
	let mut v: Vec<usize> = (0..=dense).chain((dense..sparse).step_by(97)).collect();
	let mut magic: Vec<usize> = vec![2000, 2047, 2048, 2083, 4000, 8000, 8190, 8192, 10_000, 10_240, 16_000, 20_480, 30_000, 30_720, 32_000, 40_960, 50_000, 51_200, 61_440, 64_000, 65_000, 65_535, 65_536, 100_000, 131_072];
	for k in 5..=20 {
		magic.push(1 << k);
	}
	for m in magic {
		for d in [m.saturating_sub(4), m.saturating_sub(3), m.saturating_sub(2), m.saturating_sub(1), m, m + 1, m + 2, m + 3, m + 4] {
			if d <= sparse {
				v.push(d);
			}
		}
	}
	v.sort_unstable();
	v.dedup();
	v
}


thread_local! {
	static ARENA: std::cell::RefCell<std::collections::HashMap<usize, Vec<u8>>> = std::cell::RefCell::new(std::collections::HashMap::new());
}

/// Runs `f` on a copy of `text` that lives in a thread-local slot reserved for texts of exactly this
/// length: every text of a given length is seen by the library at the SAME ADDRESS as the previous one
/// of that length (a re-used line buffer). Anything the library remembers between calls keyed by
/// address and length is then stale. Not re-entrant. Texts above 256 KiB are passed through.
pub fn with_arena<R>(text: &str, f: impl FnOnce(&str) -> R) -> R {
	if text.len() > (256 << 10) {
		return f(text);
	}
	ARENA.with(|a| {
		let mut map = a.borrow_mut();
		let slot = map.entry(text.len()).or_insert_with(|| vec![0u8; text.len()]);
		slot.copy_from_slice(text.as_bytes());
		let s = std::str::from_utf8(slot).expect("copied from a str");
		f(s)
	})
}

/// Runs `f` on a copy of `text` that starts at an odd offset (1..=7, derived from the length) inside
/// a larger buffer, followed by other bytes: not word-aligned, not NUL- or end-of-buffer-terminated.
pub fn with_misaligned<R>(text: &str, f: impl FnOnce(&str, usize) -> R) -> R {
	let k = 1 + text.len() % 7;
	let mut padded = String::with_capacity(text.len() + 12);
	padded.push_str(&"~~~~~~~~"[..k]);
	padded.push_str(text);
	padded.push_str("~/?");
	f(&padded[k..k + text.len()], k)
}

/// Byte offsets `k < text.len()` (on char boundaries) at which `text[..k]` is accepted by `valid`:
/// the prefix VIEWS of one buffer that are values of the same type (they share the start address).
pub fn valid_prefix_cuts(text: &str, max: usize, valid: impl Fn(&str) -> bool) -> Vec<usize> {
	// candidates: the first and last few character boundaries and an even spread (testing every prefix of
	// every case would make the check quadratic)
	let bounds: Vec<usize> = text.char_indices().map(|(i, _)| i).collect();
	let n = bounds.len();
	let mut cand: Vec<usize> = vec![];
	for j in 0..n.min(4) {
		cand.push(bounds[j]);
		cand.push(bounds[n - 1 - j]);
	}
	for j in 1..=10usize {
		if n > 0 {
			cand.push(bounds[(j * (n - 1)) / 11]);
		}
	}
	cand.sort_unstable();
	cand.dedup();
	let mut out: Vec<usize> = cand.into_iter().filter(|&i| i < text.len() && valid(&text[..i])).collect();
	if out.len() > max && max >= 2 {
		let m = out.len();
		out = (0..max).map(|j| out[j * (m - 1) / (max - 1)]).collect();
		out.dedup();
	}
	out
}


/// Byte-string versions of [`with_misaligned`] and [`with_arena`] (inputs that need not be UTF-8).
pub fn with_misaligned_bytes<R>(bytes: &[u8], f: impl FnOnce(&[u8], usize) -> R) -> R {
	let k = 1 + bytes.len() % 7;
	let mut padded = Vec::with_capacity(bytes.len() + 12);
	padded.extend_from_slice(&b"~~~~~~~~"[..k]);
	padded.extend_from_slice(bytes);
	padded.extend_from_slice(b"~/?");
	f(&padded[k..k + bytes.len()], k)
}

thread_local! {
	static ARENA_B: std::cell::RefCell<std::collections::HashMap<usize, Vec<u8>>> = std::cell::RefCell::new(std::collections::HashMap::new());
}

pub fn with_arena_bytes<R>(bytes: &[u8], f: impl FnOnce(&[u8]) -> R) -> R {
	if bytes.len() > (256 << 10) {
		return f(bytes);
	}
	ARENA_B.with(|a| {
		let mut map = a.borrow_mut();
		let slot = map.entry(bytes.len()).or_insert_with(|| vec![0u8; bytes.len()]);
		slot.copy_from_slice(bytes);
		f(slot)
	})
}


/// Non-periodic filler of exactly `n` bytes over [0-9a-z-]: base-36 counters joined by '-'. A block that is
/// moved to the wrong place, copied twice or dropped changes the text (with "xxxx..." it would not).
pub fn filler(n: usize) -> String {
	let mut s = String::with_capacity(n + 8);
	let mut i = 0u64;
	while s.len() < n {
		let mut k = i;
		let mut d = [0u8; 13];
		let mut l = 0;
		loop {
			d[l] = b"0123456789abcdefghijklmnopqrstuvwxyz"[(k % 36) as usize];
			l += 1;
			k /= 36;
			if k == 0 {
				break;
			}
		}
		for j in (0..l).rev() {
			s.push(d[j] as char);
		}
		s.push('-');
		i += 1;
	}
	s.truncate(n);
	s
}

/// Non-periodic decimal digits (for ports).
pub fn digits(n: usize) -> String {
	let mut s = String::with_capacity(n + 20);
	let mut i = 1u64;
	while s.len() < n {
		s.push_str(&(i * 7919).to_string());
		i += 1;
	}
	s.truncate(n);
	s
}
