//! Data-provider layer for the coverage-guided tier: decodes raw fuzzer bytes
//! into the SAME structured case types the proptest strategies produce, so that
//! a fuzz input is judged by the same `check` functions, tolerated by the same
//! known-finding matchers and saved as the same replay JSON.
//!
//! (The first design drove the proptest strategies through proptest's
//! pass-through RNG. That RNG halves its byte budget at every RNG fork - every
//! `prop_flat_map` and every lazily built union arm - and yields zeros once
//! exhausted, which rand's uniform sampler rejects forever. Hand decoding it is.)
//!
//! Wire format: byte 0 = flags; the rest is a sequence of fields separated by
//! 0x00 (text fields; bytes that are not UTF-8 are replaced lossily except for
//! C01/C14/C18, which take the raw bytes). Operation vectors are decoded from a
//! small opcode language (one opcode byte, then a text field when needed).

use crate::engine::{self, Failure, Prop};
use crate::gen::Fam;
use crate::oracle::abnf::ALL_TYPES;
use crate::props::c01::{Input, Src};
use crate::props::c04::{Init, Op};
use crate::props::c05::SetOp;
use crate::props::c10::{Embed, POp};
use crate::props::c11::AOp;
use crate::props::cmpgen::{Triple, KINDS};
use crate::props::*;

pub struct Cur<'a> {
	d: &'a [u8],
	i: usize,
}

impl<'a> Cur<'a> {
	pub fn new(d: &'a [u8]) -> Self {
		Cur { d, i: 0 }
	}
	pub fn u8(&mut self) -> u8 {
		let b = self.d.get(self.i).copied().unwrap_or(0);
		self.i += 1;
		b
	}
	pub fn bool(&mut self) -> bool {
		self.u8() & 1 == 1
	}
	pub fn done(&self) -> bool {
		self.i >= self.d.len()
	}
	pub fn rest(&mut self) -> &'a [u8] {
		let r = self.d.get(self.i..).unwrap_or(&[]);
		self.i = self.d.len();
		r
	}
	/// bytes up to the next 0x00 (consumed) or the end
	pub fn field_bytes(&mut self) -> &'a [u8] {
		let start = self.i.min(self.d.len());
		let mut j = start;
		while j < self.d.len() && self.d[j] != 0 {
			j += 1
		}
		self.i = j + 1;
		&self.d[start..j]
	}
	pub fn text(&mut self) -> String {
		String::from_utf8_lossy(self.field_bytes()).to_string()
	}
	/// an optional text field: a leading 0x01 byte means "absent"
	pub fn opt_text(&mut self) -> Option<String> {
		let f = self.field_bytes();
		if f.first() == Some(&1) {
			None
		} else {
			Some(String::from_utf8_lossy(f).to_string())
		}
	}
	pub fn fam(&mut self) -> Fam {
		if self.bool() {
			Fam::Iri
		} else {
			Fam::Uri
		}
	}
}

fn aops(c: &mut Cur, max: usize) -> Vec<AOp> {
	let mut v = vec![];
	while !c.done() && v.len() < max {
		match c.u8() % 7 {
			0 => v.push(AOp::SetUserinfo(Some(c.text()))),
			1 => v.push(AOp::SetUserinfo(None)),
			2 | 3 => v.push(AOp::SetHost(c.text())),
			4 => v.push(AOp::SetPort(Some(c.text()))),
			5 => v.push(AOp::SetPort(None)),
			_ => v.push(AOp::Read),
		}
	}
	v
}

fn pops(c: &mut Cur, max: usize) -> Vec<POp> {
	let mut v = vec![];
	while !c.done() && v.len() < max {
		match c.u8() % 9 {
			0 | 1 | 2 => v.push(POp::Push(c.text())),
			3 => v.push(POp::Pop),
			4 => v.push(POp::Clear),
			5 => v.push(POp::SymPush(c.text())),
			6 => {
				let t = c.text();
				v.push(POp::SymAppend(if t.is_empty() { vec![] } else { t.split('/').map(|s| s.to_string()).collect() }))
			}
			7 => v.push(POp::Normalize),
			_ => v.push(POp::Read),
		}
	}
	v
}

fn setop(c: &mut Cur) -> SetOp {
	match c.u8() % 5 {
		0 => SetOp::Scheme(c.opt_text()),
		1 => SetOp::Authority(c.opt_text()),
		2 => SetOp::Path(c.text()),
		3 => SetOp::Query(c.opt_text()),
		_ => SetOp::Fragment(c.opt_text()),
	}
}

fn ops(c: &mut Cur, max: usize) -> Vec<Op> {
	let mut v = vec![];
	while !c.done() && v.len() < max {
		match c.u8() % 8 {
			0 | 1 | 2 => v.push(Op::Set(setop(c))),
			3 | 4 => {
				// a nested vector: length byte then ops
				let n = (c.u8() % 4) as usize + 1;
				v.push(Op::Path(pops(c, n)))
			}
			5 | 6 => {
				let n = (c.u8() % 4) as usize + 1;
				v.push(Op::Auth(aops(c, n)))
			}
			_ => v.push(Op::Resolve(c.text())),
		}
	}
	v
}

fn embed(c: &mut Cur) -> Option<Embed> {
	let f = c.u8();
	if f % 4 == 0 {
		return None;
	}
	Some(Embed { full: f & 4 != 0, scheme: c.opt_text(), authority: c.opt_text(), query: c.opt_text(), fragment: c.opt_text() })
}

fn segs(t: &str) -> (bool, Vec<String>) {
	crate::oracle::split::segs(t)
}

fn judge<P: Prop>(case: P::Case) -> Option<String> {
	use std::cell::RefCell;
	use std::collections::HashSet;
	thread_local! {
		static KNOWN: RefCell<Option<(String, HashSet<String>)>> = RefCell::new(None);
	}
	let known = KNOWN.with(|k| {
		let mut k = k.borrow_mut();
		if k.as_ref().map(|(id, _)| id != P::ID).unwrap_or(true) {
			*k = Some((P::ID.to_string(), engine::known_sigs_for(P::ID)));
		}
		k.as_ref().unwrap().1.clone()
	});
	engine::judge_for_fuzz::<P>(&case, &known).map(|f: Failure| {
		eprintln!("fuzz failure: sig={} :: {}", f.sig, engine::truncate(&f.msg, 600));
		engine::save_fuzz_failure::<P>(&case, &f).display().to_string()
	})
}

/// Decodes `data` for property `id`, judges it, returns the replay path on failure.
pub fn run(id: &str, data: &[u8]) -> Option<String> {
	engine::install_panic_hook();
	let mut c = Cur::new(data);
	match id {
		"C01" => {
			let ty = ALL_TYPES[c.u8() as usize % 20];
			judge::<c01::C01>(c01::Case { ty, input: Input::from_bytes(c.rest().to_vec()), src: Src::RandomBytes })
		}
		"C14" => {
			let ty = ALL_TYPES[c.u8() as usize % 20];
			judge::<c14::C14>(c14::Case { ty, input: Input::from_bytes(c.rest().to_vec()), variant: None })
		}
		"C02" => judge::<c02::C02>(c02::Case { fam: c.fam(), text: String::from_utf8_lossy(c.rest()).to_string() }),
		"C03" => {
			let f = c.u8();
			let route = [c03::Route::Standalone, c03::Route::InFull, c03::Route::InReference][(f / 2) as usize % 3];
			// bit 6: the first text field is a predecessor read from the same (re-used) buffer
			let before = if f & 64 != 0 { Some(c.text()) } else { None };
			let authority = String::from_utf8_lossy(c.rest()).to_string();
			// a predecessor only matters when it has the same length: pad / cut it to that length when asked to
			let before = before.map(|b| if f & 128 != 0 && b.is_ascii() && authority.len() >= b.len() { format!("{b}{}", "a".repeat(authority.len() - b.len())) } else { b });
			judge::<c03::C03>(c03::Case { fam: if f & 1 == 1 { Fam::Iri } else { Fam::Uri }, authority, route, before })
		}
		"C04" => {
			let f = c.u8();
			let fam = if f & 1 == 1 { Fam::Iri } else { Fam::Uri };
			let init = match (f / 2) % 7 {
				0 | 1 => Init::Parsed { full: f & 16 != 0, text: c.text() },
				2 => Init::DefaultRef,
				3 => Init::FromScheme(c.text()),
				4 => Init::ConvertedFromUri { full: f & 16 != 0, text: c.text() },
				5 => Init::ConvertedKind { to_full: f & 16 != 0, text: c.text() },
				_ => Init::PathBuf { text: c.text() },
			};
			let o = if matches!(init, Init::PathBuf { .. }) {
				let mut v = vec![];
				while !c.done() && v.len() < 12 {
					let n = (c.u8() % 4) as usize + 1;
					v.push(Op::Path(pops(&mut c, n)))
				}
				v
			} else {
				ops(&mut c, 16)
			};
			judge::<c04::C04>(c04::Case { fam, init, ops: o })
		}
		"C05" => {
			let f = c.u8();
			let initial = c.text();
			let op = setop(&mut c);
			// remaining bytes: calls made just before on other buffers
			let mut before = vec![];
			while !c.done() && before.len() < 3 {
				let g = c.u8();
				let i2 = c.text();
				before.push(c05::Prev { full: g & 2 != 0, initial: i2, op: setop(&mut c) });
			}
			judge::<c05::C05>(c05::Case { fam: if f & 1 == 1 { Fam::Iri } else { Fam::Uri }, full: f & 2 != 0, initial, op, before })
		}
		"C06" => {
			let fam = c.fam();
			let base = c.text();
			judge::<c06::C06>(c06::Case { fam, base, reference: c.text() })
		}
		"C07" | "C08" => {
			let f = c.u8();
			let kind = KINDS[(f / 2) as usize % KINDS.len()];
			let t = Triple { fam: if f & 1 == 1 { Fam::Iri } else { Fam::Uri }, kind, a: c.text(), b: c.text(), c: c.text() };
			if id == "C07" {
				judge::<c07::C07>(t)
			} else {
				judge::<c08::C08>(t)
			}
		}
		"C09" => {
			let fam = c.fam();
			let e = embed(&mut c);
			let (abs, s) = segs(&c.text());
			judge::<c09::C09>(c09::Case { fam, embed: e, abs, segs: s, repeat_first: None })
		}
		"C10" => {
			let fam = c.fam();
			let e = embed(&mut c);
			let (abs, s) = segs(&c.text());
			judge::<c10::C10>(c10::Case { fam, embed: e, abs, segs: s, ops: pops(&mut c, 16) })
		}
		"C11" => {
			let f = c.u8();
			let initial = c.text();
			{ let o = aops(&mut c, 16); let d: Vec<u8> = o.iter().enumerate().map(|(i, _)| if (f as usize + i) % 3 == 0 { (i % 4) as u8 + 1 } else { 0 }).collect(); judge::<c11::C11>(c11::Case { fam: if f & 1 == 1 { Fam::Iri } else { Fam::Uri }, full: f & 2 != 0, initial, ops: o, derive: d }) }
		}
		"C12" => {
			let fam = c.fam();
			let path = c.text();
			let sched: Vec<bool> = c.rest().iter().take(64).map(|b| b & 1 == 1).collect();
			judge::<c12::C12>(c12::Case { fam, path, schedule: Some(sched) })
		}
		"C13" => {
			let text = c.text();
			let other = c.text();
			judge::<c13::C13>(c13::Case { text, other, ops: ops(&mut c, 6) })
		}
		"C15" => {
			let fam = c.fam();
			let a = c.text();
			judge::<c15::C15>(c15::Case { fam, a, b: c.text() })
		}
		"C16" => {
			let f = c.u8();
			let fam = if f & 1 == 1 { Fam::Iri } else { Fam::Uri };
			let full = f & 2 != 0;
			let value = c.text();
			let case = match (f / 4) % 3 {
				0 => c16::Case::PathSuffix { fam, value, prefix: c.text() },
				1 => c16::Case::RefSuffix { fam, full, value, prefix: c.text() },
				_ => c16::Case::Base { fam, full, value },
			};
			judge::<c16::C16>(case)
		}
		"C18" => judge::<c18::C18>(c18::Case { input: Input::from_bytes(data.to_vec()) }),
		"C19" => {
			let f = c.u8();
			let kind = c19::CKINDS[(f / 4) as usize % 5];
			judge::<c19::C19>(c19::Case { fam: if f & 1 == 1 { Fam::Iri } else { Fam::Uri }, kind, text: String::from_utf8_lossy(c.rest()).to_string(), embedded: f & 2 != 0 })
		}
		"C20" => {
			let f = c.u8();
			let kind = KINDS[(f / 2) as usize % KINDS.len()];
			judge::<c20::C20>(c20::Case { fam: if f & 1 == 1 { Fam::Iri } else { Fam::Uri }, kind, text: String::from_utf8_lossy(c.rest()).to_string() })
		}
		_ => None,
	}
}

/// Small valid seeds (one per line in the wire format of `id`) taken from the
/// repository's own tests and RFC 3986 examples.
pub fn seeds(id: &str) -> Vec<Vec<u8>> {
	let urls = [
		"http://a/b/c/d;p?q", "https://www.rust-lang.org/foo/bar?query#frag", "foo://example.com:8042/over/there?name=ferret#nose", "urn:example:animal:ferret:nose",
		"mailto:John.Doe@example.com", "ldap://[2001:db8::7]/c=GB?objectClass?one", "//authority/path?query#fragment", "../../g", "g;x=1/../y", "a/b/../../../", "scheme:a:b/c",
		"http://user:pw@[::ffff:1.2.3.4]:8080/%C3%A9/./x/../y//?a=b&c#f", "data:text/plain;base64,SGVsbG8=", "http://r\u{e9}sum\u{e9}.example.org/\u{8a9e}?\u{e000}#\u{10000}",
	];
	let mut out = vec![];
	for (i, u) in urls.iter().enumerate() {
		let mut v = vec![i as u8];
		match id {
			"C04" | "C05" | "C11" | "C13" | "C06" | "C15" | "C16" | "C10" | "C09" => {
				v.extend_from_slice(u.as_bytes());
				v.push(0);
				v.extend_from_slice(urls[(i + 3) % urls.len()].as_bytes());
				v.push(0);
				v.extend_from_slice(&[2, b'x', 0, 3, 7, 0, b'y', b':', b'z', 0]);
			}
			"C07" | "C08" => {
				for k in 0..3 {
					v.extend_from_slice(urls[(i + k) % urls.len()].as_bytes());
					v.push(0);
				}
			}
			_ => v.extend_from_slice(u.as_bytes()),
		}
		out.push(v);
	}
	out
}
