//! Plain RFC 4648 (standard alphabet) encoder / decoder.

const ALPHA: &[u8; 64] = b"ABCDEFGHIJKLMNOPQRSTUVWXYZabcdefghijklmnopqrstuvwxyz0123456789+/";

pub fn encode(data: &[u8]) -> String {
	let mut out = String::new();
	for chunk in data.chunks(3) {
		let b = [chunk[0], *chunk.get(1).unwrap_or(&0), *chunk.get(2).unwrap_or(&0)];
		let n = (b[0] as u32) << 16 | (b[1] as u32) << 8 | b[2] as u32;
		out.push(ALPHA[(n >> 18) as usize & 63] as char);
		out.push(ALPHA[(n >> 12) as usize & 63] as char);
		if chunk.len() > 1 {
			out.push(ALPHA[(n >> 6) as usize & 63] as char)
		} else {
			out.push('=')
		}
		if chunk.len() > 2 {
			out.push(ALPHA[n as usize & 63] as char)
		} else {
			out.push('=')
		}
	}
	out
}

fn val(c: u8) -> Option<u32> {
	ALPHA.iter().position(|x| *x == c).map(|p| p as u32)
}

/// Lenient decoding: the longest sensible reading of a padded or unpadded
/// string; `None` if a non-alphabet character occurs before the padding or the
/// length is impossible.
pub fn decode_lenient(s: &str) -> Option<Vec<u8>> {
	let b = s.as_bytes();
	let body_len = b.iter().position(|c| *c == b'=').unwrap_or(b.len());
	if !b[body_len..].iter().all(|c| *c == b'=') {
		return None;
	}
	let body = &b[..body_len];
	if body.len() % 4 == 1 {
		return None;
	}
	let mut out = Vec::new();
	for chunk in body.chunks(4) {
		let mut n = 0u32;
		for (i, c) in chunk.iter().enumerate() {
			n |= val(*c)? << (18 - 6 * i as u32);
		}
		out.push((n >> 16) as u8);
		if chunk.len() > 2 {
			out.push((n >> 8) as u8)
		}
		if chunk.len() > 3 {
			out.push(n as u8)
		}
	}
	Some(out)
}

pub fn self_check() -> Result<(), String> {
	let v: &[(&[u8], &str)] = &[
		(b"", ""),
		(b"f", "Zg=="),
		(b"fo", "Zm8="),
		(b"foo", "Zm9v"),
		(b"foob", "Zm9vYg=="),
		(b"fooba", "Zm9vYmE="),
		(b"foobar", "Zm9vYmFy"),
	];
	for (d, e) in v {
		if encode(d) != *e {
			return Err(format!("base64 self-check: encode({:?})", d));
		}
		if decode_lenient(e).as_deref() != Some(*d) {
			return Err(format!("base64 self-check: decode({:?})", e));
		}
	}
	Ok(())
}
