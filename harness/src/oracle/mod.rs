pub mod abnf;
pub mod base64;
pub mod norm;
pub mod pct;
pub mod resolve;
pub mod split;

/// All start-up self-checks of the reference models.
pub fn self_check() -> Result<(), String> {
	abnf::self_check()?;
	norm::self_check(6)?;
	base64::self_check()?;
	Ok(())
}
