//! R-SPLIT (RFC 3986 Appendix B), R-AUTH (section 3.2), R-SEGS.

use serde::{Deserialize, Serialize};

#[derive(Debug, Clone, PartialEq, Eq, Hash, Serialize, Deserialize)]
pub struct Parts {
	pub scheme: Option<String>,
	pub authority: Option<String>,
	pub path: String,
	pub query: Option<String>,
	pub fragment: Option<String>,
}

/// Byte offsets of the five components in the source text.
#[derive(Debug, Clone, PartialEq, Eq)]
pub struct Ranges {
	pub scheme: Option<(usize, usize)>,
	pub authority: Option<(usize, usize)>,
	pub path: (usize, usize),
	pub query: Option<(usize, usize)>,
	pub fragment: Option<(usize, usize)>,
}

/// RFC 3986 Appendix B:
/// `^(([^:/?#]+):)?(//([^/?#]*))?([^?#]*)(\?([^#]*))?(#(.*))?`
pub fn split_ranges(s: &str) -> Ranges {
	let b = s.as_bytes();
	let n = b.len();
	let mut i = 0;
	// scheme: [^:/?#]+ followed by ':'
	let mut scheme = None;
	{
		let mut j = 0;
		while j < n && !matches!(b[j], b':' | b'/' | b'?' | b'#') {
			j += 1
		}
		if j > 0 && j < n && b[j] == b':' {
			scheme = Some((0, j));
			i = j + 1;
		}
	}
	let mut authority = None;
	if i + 1 < n && b[i] == b'/' && b[i + 1] == b'/' {
		let start = i + 2;
		let mut j = start;
		while j < n && !matches!(b[j], b'/' | b'?' | b'#') {
			j += 1
		}
		authority = Some((start, j));
		i = j;
	}
	let pstart = i;
	while i < n && !matches!(b[i], b'?' | b'#') {
		i += 1
	}
	let path = (pstart, i);
	let mut query = None;
	if i < n && b[i] == b'?' {
		let start = i + 1;
		let mut j = start;
		while j < n && b[j] != b'#' {
			j += 1
		}
		query = Some((start, j));
		i = j;
	}
	let mut fragment = None;
	if i < n && b[i] == b'#' {
		fragment = Some((i + 1, n));
	}
	Ranges { scheme, authority, path, query, fragment }
}

pub fn split(s: &str) -> Parts {
	let r = split_ranges(s);
	let g = |x: (usize, usize)| s[x.0..x.1].to_string();
	Parts {
		scheme: r.scheme.map(g),
		authority: r.authority.map(g),
		path: g(r.path),
		query: r.query.map(g),
		fragment: r.fragment.map(g),
	}
}

/// RFC 3986 section 5.3.
pub fn recompose(p: &Parts) -> String {
	let mut s = String::new();
	if let Some(x) = &p.scheme {
		s.push_str(x);
		s.push(':')
	}
	if let Some(x) = &p.authority {
		s.push_str("//");
		s.push_str(x)
	}
	s.push_str(&p.path);
	if let Some(x) = &p.query {
		s.push('?');
		s.push_str(x)
	}
	if let Some(x) = &p.fragment {
		s.push('#');
		s.push_str(x)
	}
	s
}

#[derive(Debug, Clone, PartialEq, Eq, Hash, Serialize, Deserialize)]
pub struct AuthParts {
	pub userinfo: Option<String>,
	pub host: String,
	pub port: Option<String>,
}

/// RFC 3986 section 3.2 on a *valid* authority.
pub fn split_authority(a: &str) -> AuthParts {
	// user info: text before the (only possible) '@'
	let (userinfo, rest) = match a.find('@') {
		Some(i) => (Some(a[..i].to_string()), &a[i + 1..]),
		None => (None, a),
	};
	let (host, after) = if rest.starts_with('[') {
		match rest.find(']') {
			Some(j) => (&rest[..=j], &rest[j + 1..]),
			None => (rest, ""),
		}
	} else {
		match rest.find(':') {
			Some(j) => (&rest[..j], &rest[j..]),
			None => (rest, ""),
		}
	};
	let port = after.strip_prefix(':').map(|p| p.to_string());
	AuthParts { userinfo, host: host.to_string(), port }
}

pub fn recompose_authority(p: &AuthParts) -> String {
	let mut s = String::new();
	if let Some(u) = &p.userinfo {
		s.push_str(u);
		s.push('@')
	}
	s.push_str(&p.host);
	if let Some(x) = &p.port {
		s.push(':');
		s.push_str(x)
	}
	s
}

/// R-SEGS: (absolute, segments) under the library's documented convention:
/// `/` has no segments, `/a/` has two.
pub fn segs(path: &str) -> (bool, Vec<String>) {
	let abs = path.starts_with('/');
	let rest = if abs { &path[1..] } else { path };
	if rest.is_empty() {
		(abs, vec![])
	} else {
		(abs, rest.split('/').map(|s| s.to_string()).collect())
	}
}

pub fn render(abs: bool, segs: &[String]) -> String {
	let mut s = String::new();
	if abs {
		s.push('/')
	}
	s.push_str(&segs.join("/"));
	s
}
