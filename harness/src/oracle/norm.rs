//! R-NORM (dot-segment model) and R-ACCEPT-PATH.

use super::split::{render, segs};

/// `N(abs, S)`: scan left to right; `.` dropped; `..` pops unless the stack is
/// empty or ends in `..`, in which case it is kept (relative) or dropped
/// (absolute).
pub fn n(abs: bool, s: &[String]) -> Vec<String> {
	let mut st: Vec<String> = Vec::new();
	for x in s {
		match x.as_str() {
			"." => {}
			".." => match st.last() {
				Some(l) if l != ".." => {
					st.pop();
				}
				_ => {
					if !abs {
						st.push("..".into())
					}
				}
			},
			_ => st.push(x.clone()),
		}
	}
	st
}

pub fn open(s: &[String]) -> bool {
	matches!(s.last().map(|x| x.as_str()), Some(".") | Some(".."))
}

/// `E(S)`: `N` followed by one empty segment when the input ends in a dot
/// segment and `N` is non-empty.
pub fn e(abs: bool, s: &[String]) -> Vec<String> {
	let mut x = n(abs, s);
	if open(s) && !x.is_empty() {
		x.push(String::new())
	}
	x
}

/// Literal RFC 3986 section 5.2.4 on an *absolute* (or empty) input string.
pub fn remove_dot_segments(input: &str) -> String {
	let mut inp = input.to_string();
	let mut out = String::new();
	while !inp.is_empty() {
		if inp.starts_with("../") {
			inp.drain(..3);
		} else if inp.starts_with("./") {
			inp.drain(..2);
		} else if inp.starts_with("/./") {
			inp.replace_range(..3, "/");
		} else if inp == "/." {
			inp = "/".into();
		} else if inp.starts_with("/../") {
			inp.replace_range(..4, "/");
			match out.rfind('/') {
				Some(i) => out.truncate(i),
				None => out.clear(),
			}
		} else if inp == "/.." {
			inp = "/".into();
			match out.rfind('/') {
				Some(i) => out.truncate(i),
				None => out.clear(),
			}
		} else if inp == "." || inp == ".." {
			inp.clear();
		} else {
			let start = if inp.starts_with('/') { 1 } else { 0 };
			let end = inp[start..].find('/').map(|i| i + start).unwrap_or(inp.len());
			out.push_str(&inp[..end]);
			inp.drain(..end);
		}
	}
	out
}

/// Splits an RFC-style absolute path text into the RFC segment list (every
/// piece after each '/', so `/` is one empty segment).
fn rfc_segs(p: &str) -> Vec<String> {
	debug_assert!(p.starts_with('/'));
	p[1..].split('/').map(|s| s.to_string()).collect()
}

/// `unshield`: drops a leading `.` exactly when it is followed by a segment
/// that is empty or contains `:`.
pub fn unshield(s: &[String]) -> Vec<String> {
	if s.len() >= 2 && s[0] == "." && (s[1].is_empty() || s[1].contains(':')) {
		s[1..].to_vec()
	} else {
		s.to_vec()
	}
}

/// Does a `.` appear in `r`'s segments anywhere it is not a shield, while the
/// target has none there?  Checked implicitly by comparing lists.
///
/// strict R-ACCEPT-PATH: `r` is absolute iff `abs`, and unshield(segs(r)) == unshield(x).
pub fn accept_strict(r: &str, abs: bool, x: &[String]) -> bool {
	let (rabs, rs) = segs(r);
	rabs == abs && unshield(&rs) == unshield(x)
}

/// textual R-ACCEPT-PATH: strict, or `r == render(abs, x)`.
pub fn accept_textual(r: &str, abs: bool, x: &[String]) -> bool {
	if accept_strict(r, abs, x) {
		return true;
	}
	r == render(abs, x) && r.starts_with('/') == abs
}

/// Self-check of E against the literal section 5.2.4 procedure on all absolute
/// paths of up to `max` segments over {a, b, ., .., ""}.
pub fn self_check(max: usize) -> Result<(), String> {
	let alphabet = ["a", "b", ".", "..", ""];
	let mut idx = vec![0usize; 0];
	for len in 0..=max {
		idx.clear();
		idx.resize(len, 0);
		loop {
			let s: Vec<String> = idx.iter().map(|i| alphabet[*i].to_string()).collect();
			// RFC-style text: "/" + join  (len 0 => "/" has the single empty RFC segment,
			// which we map to the empty list)
			let text = format!("/{}", s.join("/"));
			let lit = remove_dot_segments(&text);
			// Compare as RFC segment lists.  Our E list rendered RFC-style:
			// "/" + join(E)   (E empty => "/").
			let (_, lib_s) = segs(&text);
			let ours = format!("/{}", e(true, &lib_s).join("/"));
			if lit != ours && !(lit.is_empty() && ours == "/") {
				return Err(format!(
					"R-NORM self-check: {:?}: section 5.2.4 gives {:?}, model gives {:?}",
					text, lit, ours
				));
			}
			let _ = rfc_segs;
			// next
			let mut k = 0;
			loop {
				if k == len {
					break;
				}
				idx[k] += 1;
				if idx[k] < alphabet.len() {
					break;
				}
				idx[k] = 0;
				k += 1;
			}
			if k == len {
				break;
			}
		}
	}
	Ok(())
}
