//! R-RESOLVE: RFC 3986 section 5.2 (strict) with Errata 4547.

use super::norm;
use super::split::{render, segs, split, Parts};

/// Dot-segment removal as the property defines it: section 5.2.4 on absolute
/// paths, Errata 4547 on paths that do not start with '/'.
pub fn rds(path: &str) -> String {
	if path.is_empty() {
		return String::new();
	}
	let (abs, s) = segs(path);
	let e = norm::e(abs, &s);
	if !abs && e.first().map(|x| x.is_empty()).unwrap_or(false) {
		// degenerate (see `degenerate`): a relative list starting with an empty
		// segment cannot be written without a shield
		return format!("./{}", render(false, &e));
	}
	render(abs, &e)
}

/// A path that does not start with '/' whose dot-segment removal leaves an
/// empty FIRST segment (e.g. `a/..//b`). RFC 3986 5.2.4 taken literally turns
/// it into an absolute path (`/b`), the Errata-4547 reading keeps it relative
/// (`.//b`); the property does not settle which, so both are accepted.
pub fn degenerate(path: &str) -> bool {
	if path.is_empty() || path.starts_with('/') {
		return false;
	}
	let (_, s) = segs(path);
	norm::e(false, &s).first().map(|x| x.is_empty()).unwrap_or(false)
}

/// The path to which dot-segment removal is applied for this pair (None in the
/// empty-path branch, where the base path is copied verbatim).
pub fn path_before_rds(base: &Parts, r: &Parts) -> Option<String> {
	if r.scheme.is_some() || r.authority.is_some() {
		Some(r.path.clone())
	} else if r.path.is_empty() {
		None
	} else if r.path.starts_with('/') {
		Some(r.path.clone())
	} else {
		Some(merge(base, &r.path))
	}
}

pub fn merge(base: &Parts, rpath: &str) -> String {
	if base.authority.is_some() && base.path.is_empty() {
		format!("/{}", rpath)
	} else {
		match base.path.rfind('/') {
			Some(i) => format!("{}{}", &base.path[..=i], rpath),
			None => rpath.to_string(),
		}
	}
}

/// Target components per section 5.2.2 (strict).
pub fn resolve_parts(base: &Parts, r: &Parts) -> Parts {
	let mut t = Parts { scheme: None, authority: None, path: String::new(), query: None, fragment: None };
	if r.scheme.is_some() {
		t.scheme = r.scheme.clone();
		t.authority = r.authority.clone();
		t.path = rds(&r.path);
		t.query = r.query.clone();
	} else {
		if r.authority.is_some() {
			t.authority = r.authority.clone();
			t.path = rds(&r.path);
			t.query = r.query.clone();
		} else {
			if r.path.is_empty() {
				t.path = base.path.clone();
				t.query = if r.query.is_some() { r.query.clone() } else { base.query.clone() };
			} else {
				if r.path.starts_with('/') {
					t.path = rds(&r.path);
				} else {
					t.path = rds(&merge(base, &r.path));
				}
				t.query = r.query.clone();
			}
			t.authority = base.authority.clone();
		}
		t.scheme = base.scheme.clone();
	}
	t.fragment = r.fragment.clone();
	t
}

pub fn resolve(base: &str, r: &str) -> Parts {
	resolve_parts(&split(base), &split(r))
}

/// Which 5.2.2 branch does the reference take?
pub fn branch(r: &Parts) -> &'static str {
	if r.scheme.is_some() {
		"scheme"
	} else if r.authority.is_some() {
		"authority"
	} else if r.path.is_empty() {
		"empty-path"
	} else if r.path.starts_with('/') {
		"absolute-path"
	} else {
		"relative-path"
	}
}
