//! R-PCT / R-EQUIV.

use super::norm;
use super::split::{segs, split, split_authority, AuthParts, Parts};

fn hv(b: u8) -> Option<u8> {
	match b {
		b'0'..=b'9' => Some(b - b'0'),
		b'a'..=b'f' => Some(b - b'a' + 10),
		b'A'..=b'F' => Some(b - b'A' + 10),
		_ => None,
	}
}

/// `%XX` -> octet; everything else literally (UTF-8 bytes of the text).
pub fn decode(s: &str) -> Vec<u8> {
	let b = s.as_bytes();
	let mut out = Vec::with_capacity(b.len());
	let mut i = 0;
	while i < b.len() {
		if b[i] == b'%' && i + 2 < b.len() {
			if let (Some(h), Some(l)) = (hv(b[i + 1]), hv(b[i + 2])) {
				out.push(h << 4 | l);
				i += 3;
				continue;
			}
		}
		out.push(b[i]);
		i += 1;
	}
	out
}

/// Does the component contain percent-encoded octets (or a mixture) whose
/// decoding is not well-formed UTF-8?
pub fn decodes_to_utf8(s: &str) -> bool {
	std::str::from_utf8(&decode(s)).is_ok()
}

pub fn eq_dec(a: &str, b: &str) -> bool {
	decode(a) == decode(b)
}

pub fn eq_opt_dec(a: &Option<String>, b: &Option<String>) -> bool {
	match (a, b) {
		(None, None) => true,
		(Some(x), Some(y)) => eq_dec(x, y),
		_ => false,
	}
}

pub fn equiv_auth_parts(a: &AuthParts, b: &AuthParts) -> bool {
	eq_opt_dec(&a.userinfo, &b.userinfo) && eq_dec(&a.host, &b.host) && a.port == b.port
}

pub fn equiv_authority(a: &str, b: &str) -> bool {
	equiv_auth_parts(&split_authority(a), &split_authority(b))
}

pub fn equiv_path(a: &str, b: &str) -> bool {
	let (aa, sa) = segs(a);
	let (ba, sb) = segs(b);
	if aa != ba {
		return false;
	}
	let na = norm::n(aa, &sa);
	let nb = norm::n(ba, &sb);
	na.len() == nb.len() && na.iter().zip(nb.iter()).all(|(x, y)| eq_dec(x, y))
}

pub fn equiv_parts(a: &Parts, b: &Parts) -> bool {
	a.scheme == b.scheme
		&& match (&a.authority, &b.authority) {
			(None, None) => true,
			(Some(x), Some(y)) => equiv_authority(x, y),
			_ => false,
		} && equiv_path(&a.path, &b.path)
		&& eq_opt_dec(&a.query, &b.query)
		&& eq_opt_dec(&a.fragment, &b.fragment)
}

pub fn equiv_ref(a: &str, b: &str) -> bool {
	equiv_parts(&split(a), &split(b))
}

/// All pct-decodable components of a reference text (userinfo, host, segments,
/// query, fragment) decode to well-formed UTF-8.
pub fn ref_all_utf8(s: &str) -> bool {
	let p = split(s);
	if let Some(a) = &p.authority {
		let ap = split_authority(a);
		if let Some(u) = &ap.userinfo {
			if !decodes_to_utf8(u) {
				return false;
			}
		}
		if !decodes_to_utf8(&ap.host) {
			return false;
		}
	}
	let (_, sg) = segs(&p.path);
	if !sg.iter().all(|x| decodes_to_utf8(x)) {
		return false;
	}
	p.query.as_deref().map(decodes_to_utf8).unwrap_or(true)
		&& p.fragment.as_deref().map(decodes_to_utf8).unwrap_or(true)
}
