//! R-ABNF: reference recogniser for the RFC 3986 / RFC 3987 grammars.
//!
//! The grammars are transcribed by hand from the RFC texts (NOT from
//! /repo/crates/core/src/*/grammar.abnf) into an expression tree and
//! interpreted by a set-of-positions matcher, which is exact for these
//! non-left-recursive grammars.

use std::collections::HashMap;
use std::sync::OnceLock;

#[derive(Debug, Clone)]
pub enum E {
	/// Case-insensitive literal (RFC 5234 string).
	Lit(&'static str),
	/// Inclusive range of token values.
	Rng(u32, u32),
	Cat(Vec<E>),
	Alt(Vec<E>),
	Rep(usize, Option<usize>, Box<E>),
	Ref(&'static str),
}

fn lit(s: &'static str) -> E {
	E::Lit(s)
}
fn rng(a: u32, b: u32) -> E {
	E::Rng(a, b)
}
fn cat(v: Vec<E>) -> E {
	E::Cat(v)
}
fn alt(v: Vec<E>) -> E {
	E::Alt(v)
}
fn rep(min: usize, max: Option<usize>, e: E) -> E {
	E::Rep(min, max, Box::new(e))
}
fn star(e: E) -> E {
	rep(0, None, e)
}
fn plus(e: E) -> E {
	rep(1, None, e)
}
fn opt(e: E) -> E {
	rep(0, Some(1), e)
}
fn r(n: &'static str) -> E {
	E::Ref(n)
}

pub struct Grammar {
	rules: HashMap<&'static str, E>,
}

/// Position set over an input of length `n` (positions 0..=n).
#[derive(Clone, PartialEq, Eq)]
pub struct Pos {
	small: u128,
	big: Option<Vec<u64>>,
}

impl Pos {
	fn empty(n: usize) -> Self {
		if n < 127 {
			Pos { small: 0, big: None }
		} else {
			Pos { small: 0, big: Some(vec![0; (n + 64) / 64 + 1]) }
		}
	}
	fn set(&mut self, i: usize) {
		match &mut self.big {
			None => self.small |= 1u128 << i,
			Some(v) => v[i / 64] |= 1u64 << (i % 64),
		}
	}
	fn get(&self, i: usize) -> bool {
		match &self.big {
			None => (self.small >> i) & 1 == 1,
			Some(v) => (v[i / 64] >> (i % 64)) & 1 == 1,
		}
	}
	fn is_empty(&self) -> bool {
		match &self.big {
			None => self.small == 0,
			Some(v) => v.iter().all(|x| *x == 0),
		}
	}
	fn or(&mut self, o: &Pos) {
		match (&mut self.big, &o.big) {
			(None, None) => self.small |= o.small,
			(Some(a), Some(b)) => {
				for (x, y) in a.iter_mut().zip(b) {
					*x |= *y
				}
			}
			_ => unreachable!(),
		}
	}
	fn for_each(&self, n: usize, mut f: impl FnMut(usize)) {
		match &self.big {
			None => {
				let mut m = self.small;
				while m != 0 {
					let i = m.trailing_zeros() as usize;
					f(i);
					m &= m - 1;
				}
			}
			Some(v) => {
				for i in 0..=n {
					if (v[i / 64] >> (i % 64)) & 1 == 1 {
						f(i)
					}
				}
			}
		}
	}
}

fn eq_ci(tok: u32, c: u8) -> bool {
	if tok > 127 {
		return false;
	}
	let t = tok as u8;
	t == c || (c.is_ascii_alphabetic() && t.eq_ignore_ascii_case(&c))
}

impl Grammar {
	fn ends(&self, e: &E, inp: &[u32], starts: &Pos) -> Pos {
		let n = inp.len();
		if starts.is_empty() {
			return Pos::empty(n);
		}
		match e {
			E::Lit(s) => {
				let mut cur = starts.clone();
				for c in s.bytes() {
					let mut next = Pos::empty(n);
					cur.for_each(n, |p| {
						if p < n && eq_ci(inp[p], c) {
							next.set(p + 1)
						}
					});
					cur = next;
					if cur.is_empty() {
						break;
					}
				}
				cur
			}
			E::Rng(a, b) => {
				let mut next = Pos::empty(n);
				starts.for_each(n, |p| {
					if p < n && inp[p] >= *a && inp[p] <= *b {
						next.set(p + 1)
					}
				});
				next
			}
			E::Cat(v) => {
				let mut cur = starts.clone();
				for x in v {
					cur = self.ends(x, inp, &cur);
					if cur.is_empty() {
						break;
					}
				}
				cur
			}
			E::Alt(v) => {
				let mut out = Pos::empty(n);
				for x in v {
					out.or(&self.ends(x, inp, starts));
				}
				out
			}
			E::Rep(min, max, x) => {
				let mut out = Pos::empty(n);
				if *min == 0 {
					out.or(starts);
				}
				let mut cur = starts.clone();
				let mut i = 0usize;
				loop {
					if let Some(m) = max {
						if i >= *m {
							break;
						}
					}
					let next = self.ends(x, inp, &cur);
					i += 1;
					if next.is_empty() {
						break;
					}
					if i >= *min {
						let before = out.clone();
						out.or(&next);
						// fixed point (only relevant for nullable bodies)
						if out == before && next == cur {
							break;
						}
					}
					cur = next;
					if i > n + min + 1 {
						break;
					}
				}
				out
			}
			E::Ref(name) => {
				let rule = self
					.rules
					.get(name)
					.unwrap_or_else(|| panic!("R-ABNF: unknown rule {name}"));
				self.ends(rule, inp, starts)
			}
		}
	}

	pub fn matches(&self, rule: &str, inp: &[u32]) -> bool {
		let n = inp.len();
		let mut s = Pos::empty(n);
		s.set(0);
		let e = self.rules.get(rule).unwrap_or_else(|| panic!("R-ABNF: unknown rule {rule}"));
		self.ends(e, inp, &s).get(n)
	}

	/// Length of the longest prefix of `inp` that is a *viable* start
	/// (approximation: longest i such that some prefix of the rule consumed i tokens).
	pub fn rule(&self, name: &str) -> Option<&E> {
		self.rules.get(name)
	}
}

fn common_rules(m: &mut HashMap<&'static str, E>) {
	// RFC 5234 core
	m.insert("ALPHA", alt(vec![rng(0x41, 0x5A), rng(0x61, 0x7A)]));
	m.insert("DIGIT", rng(0x30, 0x39));
	m.insert(
		"HEXDIG",
		alt(vec![r("DIGIT"), lit("A"), lit("B"), lit("C"), lit("D"), lit("E"), lit("F")]),
	);
	// RFC 3986
	m.insert(
		"scheme",
		cat(vec![
			r("ALPHA"),
			star(alt(vec![r("ALPHA"), r("DIGIT"), lit("+"), lit("-"), lit(".")])),
		]),
	);
	m.insert("port", star(r("DIGIT")));
	m.insert("pct-encoded", cat(vec![lit("%"), r("HEXDIG"), r("HEXDIG")]));
	m.insert(
		"sub-delims",
		alt(vec![
			lit("!"),
			lit("$"),
			lit("&"),
			lit("'"),
			lit("("),
			lit(")"),
			lit("*"),
			lit("+"),
			lit(","),
			lit(";"),
			lit("="),
		]),
	);
	m.insert(
		"unreserved",
		alt(vec![r("ALPHA"), r("DIGIT"), lit("-"), lit("."), lit("_"), lit("~")]),
	);
	m.insert(
		"IP-literal",
		cat(vec![lit("["), alt(vec![r("IPv6address"), r("IPvFuture")]), lit("]")]),
	);
	m.insert(
		"IPvFuture",
		cat(vec![
			lit("v"),
			plus(r("HEXDIG")),
			lit("."),
			plus(alt(vec![r("unreserved"), r("sub-delims"), lit(":")])),
		]),
	);
	let h16c = || cat(vec![r("h16"), lit(":")]);
	// [ *k( h16 ":" ) h16 ]
	let pre = |k: usize| opt(cat(vec![rep(0, Some(k), h16c()), r("h16")]));
	m.insert(
		"IPv6address",
		alt(vec![
			cat(vec![rep(6, Some(6), h16c()), r("ls32")]),
			cat(vec![lit("::"), rep(5, Some(5), h16c()), r("ls32")]),
			cat(vec![opt(r("h16")), lit("::"), rep(4, Some(4), h16c()), r("ls32")]),
			cat(vec![pre(1), lit("::"), rep(3, Some(3), h16c()), r("ls32")]),
			cat(vec![pre(2), lit("::"), rep(2, Some(2), h16c()), r("ls32")]),
			cat(vec![pre(3), lit("::"), h16c(), r("ls32")]),
			cat(vec![pre(4), lit("::"), r("ls32")]),
			cat(vec![pre(5), lit("::"), r("h16")]),
			cat(vec![pre(6), lit("::")]),
		]),
	);
	m.insert("h16", rep(1, Some(4), r("HEXDIG")));
	m.insert(
		"ls32",
		alt(vec![cat(vec![r("h16"), lit(":"), r("h16")]), r("IPv4address")]),
	);
	m.insert(
		"IPv4address",
		cat(vec![
			r("dec-octet"),
			lit("."),
			r("dec-octet"),
			lit("."),
			r("dec-octet"),
			lit("."),
			r("dec-octet"),
		]),
	);
	m.insert(
		"dec-octet",
		alt(vec![
			r("DIGIT"),
			cat(vec![rng(0x31, 0x39), r("DIGIT")]),
			cat(vec![lit("1"), r("DIGIT"), r("DIGIT")]),
			cat(vec![lit("2"), rng(0x30, 0x34), r("DIGIT")]),
			cat(vec![lit("25"), rng(0x30, 0x35)]),
		]),
	);
}

/// Adds the generic-syntax rules with names prefixed by `i` ("" or "i") using
/// the given unreserved rule name and optional private rule for queries.
fn generic_rules(m: &mut HashMap<&'static str, E>, iri: bool) {
	macro_rules! n {
		($u:literal, $i:literal) => {
			if iri {
				$i
			} else {
				$u
			}
		};
	}
	let unres = n!("unreserved", "iunreserved");
	let pchar = n!("pchar", "ipchar");
	let segment = n!("segment", "isegment");
	let segment_nz = n!("segment-nz", "isegment-nz");
	let segment_nz_nc = n!("segment-nz-nc", "isegment-nz-nc");
	let abempty = n!("path-abempty", "ipath-abempty");
	let absolute = n!("path-absolute", "ipath-absolute");
	let noscheme = n!("path-noscheme", "ipath-noscheme");
	let rootless = n!("path-rootless", "ipath-rootless");
	let empty = n!("path-empty", "ipath-empty");
	let authority = n!("authority", "iauthority");
	let userinfo = n!("userinfo", "iuserinfo");
	let host = n!("host", "ihost");
	let regname = n!("reg-name", "ireg-name");
	let query = n!("query", "iquery");
	let fragment = n!("fragment", "ifragment");
	let hier = n!("hier-part", "ihier-part");
	let relpart = n!("relative-part", "irelative-part");
	let relref = n!("relative-ref", "irelative-ref");
	let full = n!("URI", "IRI");
	let reference = n!("URI-reference", "IRI-reference");
	let path = n!("path", "ipath");

	m.insert(
		full,
		cat(vec![
			r("scheme"),
			lit(":"),
			r(hier),
			opt(cat(vec![lit("?"), r(query)])),
			opt(cat(vec![lit("#"), r(fragment)])),
		]),
	);
	m.insert(
		hier,
		alt(vec![
			cat(vec![lit("//"), r(authority), r(abempty)]),
			r(absolute),
			r(rootless),
			r(empty),
		]),
	);
	m.insert(reference, alt(vec![r(full), r(relref)]));
	m.insert(
		relref,
		cat(vec![
			r(relpart),
			opt(cat(vec![lit("?"), r(query)])),
			opt(cat(vec![lit("#"), r(fragment)])),
		]),
	);
	m.insert(
		relpart,
		alt(vec![
			cat(vec![lit("//"), r(authority), r(abempty)]),
			r(absolute),
			r(noscheme),
			r(empty),
		]),
	);
	m.insert(
		authority,
		cat(vec![
			opt(cat(vec![r(userinfo), lit("@")])),
			r(host),
			opt(cat(vec![lit(":"), r("port")])),
		]),
	);
	m.insert(
		userinfo,
		star(alt(vec![r(unres), r("pct-encoded"), r("sub-delims"), lit(":")])),
	);
	m.insert(host, alt(vec![r("IP-literal"), r("IPv4address"), r(regname)]));
	m.insert(regname, star(alt(vec![r(unres), r("pct-encoded"), r("sub-delims")])));
	m.insert(
		path,
		alt(vec![r(abempty), r(absolute), r(noscheme), r(rootless), r(empty)]),
	);
	m.insert(abempty, star(cat(vec![lit("/"), r(segment)])));
	m.insert(
		absolute,
		cat(vec![
			lit("/"),
			opt(cat(vec![r(segment_nz), star(cat(vec![lit("/"), r(segment)]))])),
		]),
	);
	m.insert(noscheme, cat(vec![r(segment_nz_nc), star(cat(vec![lit("/"), r(segment)]))]));
	m.insert(rootless, cat(vec![r(segment_nz), star(cat(vec![lit("/"), r(segment)]))]));
	m.insert(empty, rep(0, Some(0), r(pchar)));
	m.insert(segment, star(r(pchar)));
	m.insert(segment_nz, plus(r(pchar)));
	m.insert(
		segment_nz_nc,
		plus(alt(vec![r(unres), r("pct-encoded"), r("sub-delims"), lit("@")])),
	);
	m.insert(
		pchar,
		alt(vec![r(unres), r("pct-encoded"), r("sub-delims"), lit(":"), lit("@")]),
	);
	if iri {
		m.insert(query, star(alt(vec![r(pchar), r("iprivate"), lit("/"), lit("?")])));
	} else {
		m.insert(query, star(alt(vec![r(pchar), lit("/"), lit("?")])));
	}
	m.insert(fragment, star(alt(vec![r(pchar), lit("/"), lit("?")])));
}

fn build() -> Grammar {
	let mut m = HashMap::new();
	common_rules(&mut m);
	generic_rules(&mut m, false);
	generic_rules(&mut m, true);
	// RFC 3987
	m.insert(
		"iunreserved",
		alt(vec![r("ALPHA"), r("DIGIT"), lit("-"), lit("."), lit("_"), lit("~"), r("ucschar")]),
	);
	m.insert(
		"ucschar",
		alt(vec![
			rng(0xA0, 0xD7FF),
			rng(0xF900, 0xFDCF),
			rng(0xFDF0, 0xFFEF),
			rng(0x10000, 0x1FFFD),
			rng(0x20000, 0x2FFFD),
			rng(0x30000, 0x3FFFD),
			rng(0x40000, 0x4FFFD),
			rng(0x50000, 0x5FFFD),
			rng(0x60000, 0x6FFFD),
			rng(0x70000, 0x7FFFD),
			rng(0x80000, 0x8FFFD),
			rng(0x90000, 0x9FFFD),
			rng(0xA0000, 0xAFFFD),
			rng(0xB0000, 0xBFFFD),
			rng(0xC0000, 0xCFFFD),
			rng(0xD0000, 0xDFFFD),
			rng(0xE1000, 0xEFFFD),
		]),
	);
	m.insert(
		"iprivate",
		alt(vec![rng(0xE000, 0xF8FF), rng(0xF0000, 0xFFFFD), rng(0x100000, 0x10FFFD)]),
	);
	Grammar { rules: m }
}

pub fn grammar() -> &'static Grammar {
	static G: OnceLock<Grammar> = OnceLock::new();
	G.get_or_init(build)
}

/// Direct membership tests for the character classes (used to speed up the
/// single-token sweeps and cross-checked against the grammar at start-up).
pub fn is_ucschar(c: u32) -> bool {
	matches!(c,
		0xA0..=0xD7FF | 0xF900..=0xFDCF | 0xFDF0..=0xFFEF
		| 0x10000..=0x1FFFD | 0x20000..=0x2FFFD | 0x30000..=0x3FFFD
		| 0x40000..=0x4FFFD | 0x50000..=0x5FFFD | 0x60000..=0x6FFFD
		| 0x70000..=0x7FFFD | 0x80000..=0x8FFFD | 0x90000..=0x9FFFD
		| 0xA0000..=0xAFFFD | 0xB0000..=0xBFFFD | 0xC0000..=0xCFFFD
		| 0xD0000..=0xDFFFD | 0xE1000..=0xEFFFD)
}

pub fn is_iprivate(c: u32) -> bool {
	matches!(c, 0xE000..=0xF8FF | 0xF0000..=0xFFFFD | 0x100000..=0x10FFFD)
}

/// The 20 validated types.
#[derive(Debug, Clone, Copy, PartialEq, Eq, Hash, PartialOrd, Ord, serde::Serialize, serde::Deserialize)]
pub enum Ty {
	Uri,
	UriRef,
	UScheme,
	UAuthority,
	UUserInfo,
	UHost,
	UPort,
	UPath,
	USegment,
	UQuery,
	UFragment,
	Iri,
	IriRef,
	IAuthority,
	IUserInfo,
	IHost,
	IPath,
	ISegment,
	IQuery,
	IFragment,
}

pub const ALL_TYPES: [Ty; 20] = [
	Ty::Uri,
	Ty::UriRef,
	Ty::UScheme,
	Ty::UAuthority,
	Ty::UUserInfo,
	Ty::UHost,
	Ty::UPort,
	Ty::UPath,
	Ty::USegment,
	Ty::UQuery,
	Ty::UFragment,
	Ty::Iri,
	Ty::IriRef,
	Ty::IAuthority,
	Ty::IUserInfo,
	Ty::IHost,
	Ty::IPath,
	Ty::ISegment,
	Ty::IQuery,
	Ty::IFragment,
];

impl Ty {
	pub fn rule(self) -> &'static str {
		match self {
			Ty::Uri => "URI",
			Ty::UriRef => "URI-reference",
			Ty::UScheme => "scheme",
			Ty::UAuthority => "authority",
			Ty::UUserInfo => "userinfo",
			Ty::UHost => "host",
			Ty::UPort => "port",
			Ty::UPath => "path",
			Ty::USegment => "segment",
			Ty::UQuery => "query",
			Ty::UFragment => "fragment",
			Ty::Iri => "IRI",
			Ty::IriRef => "IRI-reference",
			Ty::IAuthority => "iauthority",
			Ty::IUserInfo => "iuserinfo",
			Ty::IHost => "ihost",
			Ty::IPath => "ipath",
			Ty::ISegment => "isegment",
			Ty::IQuery => "iquery",
			Ty::IFragment => "ifragment",
		}
	}
	/// Is this type defined over bytes (URI family)?
	pub fn is_bytes(self) -> bool {
		(self as usize) < (Ty::Iri as usize)
	}
	pub fn name(self) -> &'static str {
		match self {
			Ty::Uri => "Uri",
			Ty::UriRef => "UriRef",
			Ty::UScheme => "Scheme",
			Ty::UAuthority => "uri::Authority",
			Ty::UUserInfo => "uri::UserInfo",
			Ty::UHost => "uri::Host",
			Ty::UPort => "Port",
			Ty::UPath => "uri::Path",
			Ty::USegment => "uri::Segment",
			Ty::UQuery => "uri::Query",
			Ty::UFragment => "uri::Fragment",
			Ty::Iri => "Iri",
			Ty::IriRef => "IriRef",
			Ty::IAuthority => "iri::Authority",
			Ty::IUserInfo => "iri::UserInfo",
			Ty::IHost => "iri::Host",
			Ty::IPath => "iri::Path",
			Ty::ISegment => "iri::Segment",
			Ty::IQuery => "iri::Query",
			Ty::IFragment => "iri::Fragment",
		}
	}
}

/// Does the byte string belong to the language of the URI-family type `t`?
pub fn accepts_bytes(t: Ty, s: &[u8]) -> bool {
	debug_assert!(t.is_bytes());
	fast::matches(t.rule(), s.iter().map(|b| *b as u32))
}

/// Does the string belong to the language of the type `t` (either family;
/// URI-family types are matched over the UTF-8 bytes of `s`)?
pub fn accepts_str(t: Ty, s: &str) -> bool {
	if t.is_bytes() {
		accepts_bytes(t, s.as_bytes())
	} else {
		fast::matches(t.rule(), s.chars().map(|c| c as u32))
	}
}

/// Generic entry: rule name over an arbitrary token slice.
pub fn matches_rule(rule: &'static str, toks: &[u32]) -> bool {
	fast::matches(rule, toks.iter().copied())
}

/// The slow, obviously-correct set-of-positions interpreter (used to
/// cross-check the automaton simulation).
pub fn slow_accepts_str(t: Ty, s: &str) -> bool {
	let toks: Vec<u32> = if t.is_bytes() {
		s.bytes().map(|b| b as u32).collect()
	} else {
		s.chars().map(|c| c as u32).collect()
	};
	grammar().matches(t.rule(), &toks)
}

/// Thompson construction of the same expression tree + lazily determinised
/// simulation (per thread). Same grammar data, second evaluation strategy.
pub mod fast {
	use super::{grammar, E};
	use std::cell::RefCell;
	use std::collections::HashMap;

	struct Nfa {
		/// epsilon edges
		eps: Vec<Vec<u32>>,
		/// (lo, hi, target)
		edges: Vec<Vec<(u32, u32, u32)>>,
		start: u32,
		accept: u32,
	}

	impl Nfa {
		fn new_state(&mut self) -> u32 {
			self.eps.push(vec![]);
			self.edges.push(vec![]);
			(self.eps.len() - 1) as u32
		}

		/// Builds a fragment for `e` from `from`; returns its end state.
		fn build(&mut self, e: &E, from: u32) -> u32 {
			match e {
				E::Lit(s) => {
					let mut cur = from;
					for c in s.bytes() {
						let nx = self.new_state();
						self.edges[cur as usize].push((c as u32, c as u32, nx));
						if c.is_ascii_alphabetic() {
							let o = if c.is_ascii_lowercase() { c.to_ascii_uppercase() } else { c.to_ascii_lowercase() };
							self.edges[cur as usize].push((o as u32, o as u32, nx));
						}
						cur = nx;
					}
					cur
				}
				E::Rng(a, b) => {
					let nx = self.new_state();
					self.edges[from as usize].push((*a, *b, nx));
					nx
				}
				E::Cat(v) => {
					let mut cur = from;
					for x in v {
						cur = self.build(x, cur);
					}
					cur
				}
				E::Alt(v) => {
					let end = self.new_state();
					for x in v {
						let s = self.new_state();
						self.eps[from as usize].push(s);
						let t = self.build(x, s);
						self.eps[t as usize].push(end);
					}
					end
				}
				E::Rep(min, max, x) => {
					let mut cur = from;
					for _ in 0..*min {
						cur = self.build(x, cur);
					}
					match max {
						Some(m) => {
							let end = self.new_state();
							self.eps[cur as usize].push(end);
							for _ in *min..*m {
								let s = self.new_state();
								self.eps[cur as usize].push(s);
								cur = self.build(x, s);
								self.eps[cur as usize].push(end);
							}
							end
						}
						None => {
							// loop: hub -> x -> hub
							let hub = self.new_state();
							self.eps[cur as usize].push(hub);
							let s = self.new_state();
							self.eps[hub as usize].push(s);
							let t = self.build(x, s);
							self.eps[t as usize].push(hub);
							hub
						}
					}
				}
				E::Ref(name) => {
					let rule = grammar().rule(name).unwrap_or_else(|| panic!("R-ABNF: unknown rule {name}")).clone();
					self.build(&rule, from)
				}
			}
		}

		fn closure(&self, set: &mut Vec<u32>) {
			let mut seen = vec![false; self.eps.len()];
			let mut stack: Vec<u32> = set.clone();
			for s in set.iter() {
				seen[*s as usize] = true;
			}
			while let Some(s) = stack.pop() {
				for t in &self.eps[s as usize] {
					if !seen[*t as usize] {
						seen[*t as usize] = true;
						set.push(*t);
						stack.push(*t);
					}
				}
			}
			set.sort_unstable();
			set.dedup();
		}
	}

	const UNKNOWN: u32 = u32::MAX;
	const DEAD: u32 = u32::MAX - 1;

	struct Dfa {
		nfa: Nfa,
		/// sorted class boundaries: class of token t = number of bounds <= t
		bounds: Vec<u32>,
		ascii_class: [u16; 128],
		nclasses: usize,
		sets: Vec<Vec<u32>>,
		ids: HashMap<Vec<u32>, u32>,
		trans: Vec<u32>,
		accepting: Vec<bool>,
	}

	impl Dfa {
		fn new(rule: &str) -> Dfa {
			let mut nfa = Nfa { eps: vec![], edges: vec![], start: 0, accept: 0 };
			let start = nfa.new_state();
			let e = grammar().rule(rule).unwrap_or_else(|| panic!("R-ABNF: unknown rule {rule}")).clone();
			let end = nfa.build(&e, start);
			nfa.start = start;
			nfa.accept = end;
			let mut bounds: Vec<u32> = vec![];
			for es in &nfa.edges {
				for (lo, hi, _) in es {
					bounds.push(*lo);
					bounds.push(hi + 1);
				}
			}
			bounds.sort_unstable();
			bounds.dedup();
			let nclasses = bounds.len() + 1;
			let mut ascii_class = [0u16; 128];
			for t in 0..128u32 {
				ascii_class[t as usize] = bounds.partition_point(|b| *b <= t) as u16;
			}
			let mut d = Dfa { nfa, bounds, ascii_class, nclasses, sets: vec![], ids: HashMap::new(), trans: vec![], accepting: vec![] };
			let mut s0 = vec![start];
			d.nfa.closure(&mut s0);
			d.intern(s0);
			d
		}

		fn intern(&mut self, set: Vec<u32>) -> u32 {
			if let Some(id) = self.ids.get(&set) {
				return *id;
			}
			let id = self.sets.len() as u32;
			self.accepting.push(set.binary_search(&self.nfa.accept).is_ok());
			self.ids.insert(set.clone(), id);
			self.sets.push(set);
			self.trans.extend(std::iter::repeat(UNKNOWN).take(self.nclasses));
			id
		}

		fn class(&self, t: u32) -> usize {
			if t < 128 {
				self.ascii_class[t as usize] as usize
			} else {
				self.bounds.partition_point(|b| *b <= t)
			}
		}

		fn step(&mut self, st: u32, t: u32) -> u32 {
			let c = self.class(t);
			let slot = st as usize * self.nclasses + c;
			let cached = self.trans[slot];
			if cached != UNKNOWN {
				return cached;
			}
			let mut next: Vec<u32> = vec![];
			for s in &self.sets[st as usize] {
				for (lo, hi, to) in &self.nfa.edges[*s as usize] {
					if t >= *lo && t <= *hi {
						next.push(*to);
					}
				}
			}
			let r = if next.is_empty() {
				DEAD
			} else {
				self.nfa.closure(&mut next);
				self.intern(next)
			};
			self.trans[slot] = r;
			r
		}
	}

	thread_local! {
		static DFAS: RefCell<HashMap<String, Dfa>> = RefCell::new(HashMap::new());
	}

	pub fn matches(rule: &str, toks: impl Iterator<Item = u32>) -> bool {
		DFAS.with(|m| {
			let mut m = m.borrow_mut();
			if !m.contains_key(rule) {
				m.insert(rule.to_string(), Dfa::new(rule));
			}
			let d = m.get_mut(rule).unwrap();
			let mut st = 0u32;
			for t in toks {
				st = d.step(st, t);
				if st == DEAD {
					return false;
				}
			}
			d.accepting[st as usize]
		})
	}

	/// Length of the longest prefix after which the automaton is still alive.
	pub fn viable_prefix(rule: &str, toks: impl Iterator<Item = u32>) -> usize {
		DFAS.with(|m| {
			let mut m = m.borrow_mut();
			if !m.contains_key(rule) {
				m.insert(rule.to_string(), Dfa::new(rule));
			}
			let d = m.get_mut(rule).unwrap();
			let mut st = 0u32;
			let mut n = 0;
			for t in toks {
				st = d.step(st, t);
				if st == DEAD {
					return n;
				}
				n += 1;
			}
			n
		})
	}
}

// ---------------------------------------------------------------------------
// Second, direct implementation of IPv6address / IPv4address (self-check).
// ---------------------------------------------------------------------------

fn is_dec_octet(s: &[u8]) -> bool {
	if s.is_empty() || s.len() > 3 || !s.iter().all(|b| b.is_ascii_digit()) {
		return false;
	}
	if s.len() > 1 && s[0] == b'0' {
		return false;
	}
	let v: u32 = s.iter().fold(0, |a, b| a * 10 + (*b - b'0') as u32);
	v <= 255
}

pub fn direct_ipv4(s: &[u8]) -> bool {
	let parts: Vec<&[u8]> = s.split(|b| *b == b'.').collect();
	parts.len() == 4 && parts.iter().all(|p| is_dec_octet(p))
}

fn is_h16(s: &[u8]) -> bool {
	!s.is_empty() && s.len() <= 4 && s.iter().all(|b| b.is_ascii_hexdigit())
}

/// Count 16-bit units of a `:`-separated run of h16 groups whose last element
/// may be an IPv4 address (worth two units). Returns None if malformed.
fn units(s: &[u8], allow_v4_tail: bool) -> Option<usize> {
	if s.is_empty() {
		return Some(0);
	}
	let groups: Vec<&[u8]> = s.split(|b| *b == b':').collect();
	let mut n = 0;
	for (i, g) in groups.iter().enumerate() {
		if is_h16(g) {
			n += 1
		} else if allow_v4_tail && i + 1 == groups.len() && direct_ipv4(g) {
			n += 2
		} else {
			return None;
		}
	}
	Some(n)
}

pub fn direct_ipv6(s: &[u8]) -> bool {
	// find "::"
	let mut dc = None;
	let mut i = 0;
	while i + 1 < s.len() {
		if s[i] == b':' && s[i + 1] == b':' {
			dc = Some(i);
			break;
		}
		i += 1
	}
	match dc {
		None => units(s, true) == Some(8),
		Some(i) => {
			let left = &s[..i];
			let right = &s[i + 2..];
			// a third ':' adjacent is malformed (":::")
			if right.starts_with(b":") {
				return false;
			}
			if right.windows(2).any(|w| w == b"::") {
				return false;
			}
			let l = match units(left, false) {
				Some(l) => l,
				None => return false,
			};
			let r = match units(right, true) {
				Some(r) => r,
				None => return false,
			};
			// "::" stands for at least one group
			l + r <= 7
		}
	}
}

/// Start-up self-checks; returns a description of the first failure.
pub fn self_check() -> Result<(), String> {
	let yes: &[(Ty, &str)] = &[
		(Ty::Uri, "ftp://ftp.is.co.za/rfc/rfc1808.txt"),
		(Ty::Uri, "http://www.ietf.org/rfc/rfc2396.txt"),
		(Ty::Uri, "ldap://[2001:db8::7]/c=GB?objectClass?one"),
		(Ty::Uri, "mailto:John.Doe@example.com"),
		(Ty::Uri, "news:comp.infosystems.www.servers.unix"),
		(Ty::Uri, "tel:+1-816-555-1212"),
		(Ty::Uri, "telnet://192.0.2.16:80/"),
		(Ty::Uri, "urn:oasis:names:specification:docbook:dtd:xml:4.1.2"),
		(Ty::Uri, "foo://example.com:8042/over/there?name=ferret#nose"),
		(Ty::Uri, "a:"),
		(Ty::Uri, "a://"),
		(Ty::Uri, "a:////"),
		(Ty::Uri, "a:/.//x"),
		(Ty::Uri, "a://[v1.x:y]:"),
		(Ty::Uri, "a://u:p:q@[::1]:0080/%41?/?#/?"),
		(Ty::UriRef, ""),
		(Ty::UriRef, "//"),
		(Ty::UriRef, "./a:b"),
		(Ty::UriRef, "/a:b"),
		(Ty::UriRef, "a/b:c"),
		(Ty::UriRef, "?"),
		(Ty::UriRef, "#"),
		(Ty::UriRef, "//@:"),
		(Ty::UHost, "999.1.1.1"),
		(Ty::UHost, "[::]"),
		(Ty::UHost, "[::1.2.3.4]"),
		(Ty::UHost, "[1:2:3:4:5:6:7:8]"),
		(Ty::UHost, "[1:2:3:4:5:6:1.2.3.4]"),
		(Ty::UHost, "[1::8]"),
		(Ty::UHost, "[1:2:3:4:5:6:7::]"),
		(Ty::UHost, "[::2:3:4:5:6:7:8]"),
		(Ty::UHost, "[vF.a]"),
		(Ty::UHost, ""),
		(Ty::UPath, "//a"),
		(Ty::UPath, "a:b"),
		(Ty::UPath, ""),
		(Ty::UPort, ""),
		(Ty::UPort, "0123456789"),
		(Ty::UScheme, "a+-.9"),
		(Ty::Iri, "http://r\u{e9}sum\u{e9}.example.org/\u{8a9e}?\u{e000}#\u{10000}"),
		(Ty::IriRef, "\u{a0}"),
		(Ty::IQuery, "\u{f8ff}\u{10fffd}"),
		(Ty::ISegment, "\u{d7ff}\u{f900}\u{efffd}"),
	];
	let no: &[(Ty, &str)] = &[
		(Ty::Uri, ""),
		(Ty::Uri, "a"),
		(Ty::Uri, ":a"),
		(Ty::Uri, "1a:b"),
		(Ty::Uri, "a:b c"),
		(Ty::Uri, "a:%"),
		(Ty::Uri, "a:%4"),
		(Ty::Uri, "a:%4g"),
		(Ty::Uri, "a://[::1"),
		(Ty::Uri, "a://[::1]x"),
		(Ty::Uri, "a://h:8a"),
		(Ty::Uri, "a:#a#b"),
		(Ty::Uri, "a:[b]"),
		(Ty::Uri, "a:\u{e9}"),
		(Ty::UriRef, "a:b:c/\u{7f}"),
		(Ty::UriRef, "1a:b"),
		(Ty::UriRef, ":"),
		(Ty::UriRef, "//h\\"),
		(Ty::UriRef, "^"),
		(Ty::UHost, "[::1.2.3.256]"),
		(Ty::UHost, "[1:2:3:4:5:6:7]"),
		(Ty::UHost, "[1:2:3:4:5:6:7:8:9]"),
		(Ty::UHost, "[1::2::3]"),
		(Ty::UHost, "[:::]"),
		(Ty::UHost, "[12345::]"),
		(Ty::UHost, "[1:2:3:4:5:6:7:8::]"),
		(Ty::UHost, "[1:2:3:4:5:6:7::8]"),
		(Ty::UHost, "[::1.2.3.4:5]"),
		(Ty::UHost, "[v.a]"),
		(Ty::UHost, "[v1.]"),
		(Ty::UHost, "[]"),
		(Ty::UHost, "a:b"),
		(Ty::UHost, "a@b"),
		(Ty::UPath, "a?"),
		(Ty::UPath, "a#"),
		(Ty::UPort, "a"),
		(Ty::UScheme, ""),
		(Ty::UScheme, "a:"),
		(Ty::USegment, "a/b"),
		(Ty::UQuery, "#"),
		(Ty::UFragment, "#"),
		(Ty::Iri, "http://a/\u{e000}"),
		(Ty::IFragment, "\u{e000}"),
		(Ty::ISegment, "\u{f8ff}"), // iprivate
		(Ty::ISegment, "\u{fdd0}"),
		(Ty::ISegment, "\u{fffe}"),
		(Ty::ISegment, "\u{1fffe}"),
		(Ty::ISegment, "\u{e0000}"),
		(Ty::ISegment, "\u{9f}"),
		(Ty::IQuery, "\u{efffe}"),
	];
	for (t, s) in yes {
		if !slow_accepts_str(*t, s) || !accepts_str(*t, s) {
			return Err(format!("R-ABNF self-check: {:?} must accept {:?}", t, s));
		}
	}
	for (t, s) in no {
		if slow_accepts_str(*t, s) || accepts_str(*t, s) {
			return Err(format!("R-ABNF self-check: {:?} must reject {:?}", t, s));
		}
	}
	// automaton simulation vs set-of-positions interpreter on every prefix,
	// every one-token deletion and every adjacent swap of the table entries, for all types
	for (_, s) in yes.iter().chain(no.iter()) {
		let cs: Vec<char> = s.chars().collect();
		let mut variants: Vec<String> = vec![];
		for i in 0..=cs.len() {
			variants.push(cs[..i].iter().collect());
		}
		for i in 0..cs.len() {
			let mut v = cs.clone();
			v.remove(i);
			variants.push(v.iter().collect());
			if i + 1 < cs.len() {
				let mut v = cs.clone();
				v.swap(i, i + 1);
				variants.push(v.iter().collect());
			}
		}
		for v in variants {
			for t in ALL_TYPES {
				if slow_accepts_str(t, &v) != accepts_str(t, &v) {
					return Err(format!("R-ABNF self-check: interpreter and automaton disagree on {:?} {:?}", t, v));
				}
			}
		}
	}
	// class membership: grammar vs direct predicate, on all scalar values
	let g = grammar();
	for c in (0u32..0x110000).step_by(1) {
		if (0xD800..0xE000).contains(&c) {
			continue;
		}
		// only test around range bounds fully; elsewhere every 97th value
		let near = (c & 0xFFFF) < 0x40 || (c & 0xFFFF) > 0xFFC0 || (0xA0 - 8..0xA0 + 8).contains(&c)
			|| (0xD7F0..0xD800).contains(&c) || (0xE000..0xE010).contains(&c)
			|| (0xF8F0..0xF910).contains(&c) || (0xFDC0..0xFE00).contains(&c)
			|| (0xE0FF0..0xE1010).contains(&c);
		if !near && c % 97 != 0 {
			continue;
		}
		if g.matches("ucschar", &[c]) != is_ucschar(c) {
			return Err(format!("R-ABNF self-check: ucschar disagreement at U+{:X}", c));
		}
		if g.matches("iprivate", &[c]) != is_iprivate(c) {
			return Err(format!("R-ABNF self-check: iprivate disagreement at U+{:X}", c));
		}
	}
	// IPv6: grammar vs direct recogniser over a systematic family
	let groups: [&str; 5] = ["1", "abcd", "12345", "", "1.2.3.4"];
	let mut count = 0usize;
	// all sequences of up to 9 items from {group kinds, "::"} is too many; use
	// structured shapes: l groups, optional "::", r groups, optional v4 tail.
	for l in 0..=9usize {
		for dc in 0..=2usize {
			for rr in 0..=9usize {
				for v4 in [false, true] {
					for gk in 0..3usize {
						let mut s = String::new();
						let lg: Vec<&str> = (0..l).map(|_| groups[gk]).collect();
						s.push_str(&lg.join(":"));
						for _ in 0..dc {
							s.push_str("::")
						}
						if dc == 0 && l > 0 && (rr > 0 || v4) {
							s.push(':')
						}
						let mut rg: Vec<&str> = (0..rr).map(|_| groups[gk]).collect();
						if v4 {
							rg.push("1.2.3.4")
						}
						s.push_str(&rg.join(":"));
						let toks: Vec<u32> = s.bytes().map(|b| b as u32).collect();
						let a = g.matches("IPv6address", &toks);
						let b = direct_ipv6(s.as_bytes());
						if a != b {
							return Err(format!(
								"R-ABNF self-check: IPv6 disagreement on {:?}: grammar={} direct={}",
								s, a, b
							));
						}
						count += 1;
					}
				}
			}
		}
	}
	let _ = count;
	for v in 0..1000u32 {
		for lead in ["", "0", "00"] {
			let s = format!("{lead}{v}.1.1.1");
			let toks: Vec<u32> = s.bytes().map(|b| b as u32).collect();
			if g.matches("IPv4address", &toks) != direct_ipv4(s.as_bytes()) {
				return Err(format!("R-ABNF self-check: IPv4 disagreement on {:?}", s));
			}
		}
	}
	Ok(())
}
