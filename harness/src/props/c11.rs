//! C11 — authority editing changes one sub-component and keeps its handle coherent.

use proptest::collection::vec;
use proptest::prelude::*;
use serde::{Deserialize, Serialize};

use crate::engine::{guard, Ctx, Failure, Prop, Tier};
use crate::gen::{self, Fam, Opt};
use crate::oracle::split::{recompose, recompose_authority, split, split_authority, AuthParts, Parts};
use crate::{both_families, by_fam, ensure, fail};

#[derive(Debug, Clone, Hash, PartialEq, Eq, Serialize, Deserialize)]
pub enum AOp {
	SetUserinfo(Option<String>),
	SetHost(String),
	SetPort(Option<String>),
	Read,
}

#[derive(Debug, Clone, Hash, Serialize, Deserialize)]
pub struct Case {
	pub fam: Fam,
	pub full: bool,
	pub initial: String,
	pub ops: Vec<AOp>,
	/// per op: 0 = as is; otherwise the argument is DERIVED from the current value of the
	/// targeted sub-component at that point of the history (1 = flip hex-digit case of the
	/// escapes, 2 = flip ASCII letter case, 3 = percent-encode one character, 4 = the very same
	/// text again): equal-but-not-identical arguments, which independent draws never produce
	#[serde(default)]
	pub derive: Vec<u8>,
}

pub struct C11;

pub fn aop(o: Opt) -> BoxedStrategy<AOp> {
	prop_oneof![
		3 => gen::opt_of(gen::userinfo(o), 7).prop_map(AOp::SetUserinfo),
		4 => gen::host(o).prop_map(AOp::SetHost),
		3 => gen::opt_of(gen::port(), 7).prop_map(AOp::SetPort),
		1 => Just(AOp::Read),
	]
	.boxed()
}

fn respell(s: &str, how: u8) -> String {
	match how {
		1 => {
			// flip the case of hex digits inside escapes
			let b: Vec<char> = s.chars().collect();
			let mut out = String::new();
			let mut i = 0;
			while i < b.len() {
				if b[i] == '%' && i + 2 < b.len() + 0 && i + 2 <= b.len() - 1 {
					out.push('%');
					for c in &b[i + 1..i + 3] {
						out.push(if c.is_ascii_lowercase() { c.to_ascii_uppercase() } else { c.to_ascii_lowercase() })
					}
					i += 3;
				} else {
					out.push(b[i]);
					i += 1;
				}
			}
			out
		}
		2 => {
			// flip ASCII letter case outside escapes
			let b: Vec<char> = s.chars().collect();
			let mut out = String::new();
			let mut i = 0;
			while i < b.len() {
				if b[i] == '%' && i + 2 < b.len() {
					out.extend(&b[i..i + 3]);
					i += 3;
				} else {
					out.push(if b[i].is_ascii_lowercase() { b[i].to_ascii_uppercase() } else { b[i].to_ascii_lowercase() });
					i += 1;
				}
			}
			out
		}
		3 => {
			// percent-encode the first unreserved character outside escapes (not inside an IP-literal)
			if s.starts_with('[') {
				return s.to_string();
			}
			let b: Vec<char> = s.chars().collect();
			let mut i = 0;
			while i < b.len() {
				if b[i] == '%' {
					i += 3;
					continue;
				}
				if b[i].is_ascii_alphanumeric() {
					let mut out: String = b[..i].iter().collect();
					out.push_str(&format!("%{:02X}", b[i] as u32));
					out.extend(&b[i + 1..]);
					return out;
				}
				i += 1;
			}
			s.to_string()
		}
		_ => s.to_string(),
	}
}

/// Materialises the derived arguments against the evolving model.
pub fn materialise(initial_authority: &AuthParts, ops: &[AOp], derive: &[u8]) -> Vec<AOp> {
	let mut m = initial_authority.clone();
	let mut out = vec![];
	for (i, op) in ops.iter().enumerate() {
		let how = derive.get(i).copied().unwrap_or(0) % 5;
		let op2 = if how == 0 {
			op.clone()
		} else {
			match op {
				AOp::SetUserinfo(Some(_)) => match &m.userinfo {
					Some(u) => AOp::SetUserinfo(Some(respell(u, how))),
					None => op.clone(),
				},
				AOp::SetHost(_) => AOp::SetHost(respell(&m.host, how)),
				AOp::SetPort(Some(_)) => match &m.port {
					Some(p) => AOp::SetPort(Some(p.clone())),
					None => op.clone(),
				},
				_ => op.clone(),
			}
		};
		apply_model(&mut m, &op2);
		out.push(op2);
	}
	out
}

pub fn apply_model(m: &mut AuthParts, op: &AOp) {
	match op {
		AOp::SetUserinfo(u) => m.userinfo = u.clone(),
		AOp::SetHost(h) => m.host = h.clone(),
		AOp::SetPort(p) => m.port = p.clone(),
		AOp::Read => {}
	}
}

both_families! {
	/// Is the op's argument a valid value of its type in this family?
	pub fn op_valid(op: &AOp) -> bool {
		match op {
			AOp::SetUserinfo(Some(u)) => UserInfo::new(u.as_str()).is_ok(),
			AOp::SetHost(h) => Host::new(h.as_str()).is_ok(),
			AOp::SetPort(Some(p)) => Port::new(p.as_str()).is_ok(),
			_ => true,
		}
	}

	fn apply(h: &mut AuthorityMut, op: &AOp) {
		match op {
			AOp::SetUserinfo(u) => h.set_userinfo(u.as_deref().map(|u| UserInfo::new(u).unwrap())),
			AOp::SetHost(x) => h.set_host(Host::new(x.as_str()).unwrap()),
			AOp::SetPort(p) => h.set_port(p.as_deref().map(|p| Port::new(p).unwrap())),
			AOp::Read => {}
		}
	}

	fn desc(op: &AOp) -> String { format!("{:?}", op) }

	macro_rules! run_on {
		($Buf:ty, $case:expr, $ops:expr, $cx:expr) => {{
			let initial = $case.initial.as_str();
			let mut buf = match <$Buf>::new(initial.into()) { Ok(b) => b, Err(_) => return Ok(false) };
			let parts0 = split(initial);
			let a0 = match &parts0.authority { Some(a) => a.clone(), None => return Ok(false) };
			let mut model = split_authority(&a0);
			// --- one handle for the whole sequence
			{
				let mut h = buf.authority_mut().ok_or_else(|| Failure::new("authority_mut-none", format!("{:?} has an authority but authority_mut() is None", initial)))?;
				for (k, op) in $ops.iter().enumerate() {
					let r = guard(|| apply(&mut h, op));
					if let Err(p) = r {
						fail!(format!("panic-in-call:{}", p.loc), "{:?}: call #{} {} through one handle panicked at {}: {}", initial, k, desc(op), p.loc, p.msg);
					}
					apply_model(&mut model, op);
					let exp = recompose_authority(&model);
					let view = guard(|| (h.as_authority().as_str().to_string(), (*h).as_str().to_string()));
					match view {
						Err(p) => fail!(format!("panic-in-view:{}", p.loc), "{:?}: after call #{} {} the handle view panicked at {}: {} (expected view {:?})", initial, k, desc(op), p.loc, p.msg, exp),
						Ok((a, d)) => {
							ensure!(a == exp, "handle-view", "{:?}: after call #{} {} (ops so far {:?}) the handle views {:?}, expected the new authority {:?}", initial, k, desc(op), &$ops[..=k], a, exp);
							ensure!(d == exp, "handle-deref", "{:?}: after call #{} {} Deref views {:?}, expected {:?}", initial, k, desc(op), d, exp);
						}
					}
					$cx.obs(2);
				}
				let exp = recompose_authority(&model);
				let fin = guard(|| h.into_authority().as_str().to_string());
				match fin {
					Err(p) => fail!(format!("panic-in-view:{}", p.loc), "{:?}: into_authority() panicked at {}: {}", initial, p.loc, p.msg),
					Ok(a) => ensure!(a == exp, "into_authority", "{:?}: after {:?} into_authority() = {:?}, expected {:?}", initial, $ops, a, exp),
				}
			}
			let mut expected = parts0.clone();
			expected.authority = Some(recompose_authority(&model));
			let exp_text = recompose(&expected);
			let got = String::from_utf8_lossy(buf.as_bytes()).to_string();
			ensure!(got == exp_text, "final-text", "{:?}: after {:?} through one handle the text is {:?}, expected {:?}", initial, $ops, got, exp_text);
			ensure!(<$Buf>::new(got.as_str().into()).is_ok(), "final-invalid", "{:?}: after {:?} the text {:?} does not re-parse", initial, $ops, got);
			// accessors after the handle is dropped
			let ga = buf.authority().map(|a| a.as_str().to_string());
			ensure!(ga == expected.authority, "final-authority-accessor", "{:?}: after {:?} authority() = {:?}, expected {:?}", initial, $ops, ga, expected.authority);
			// --- fresh handle per call
			let mut buf2 = <$Buf>::new(initial.into()).unwrap();
			for (k, op) in $ops.iter().enumerate() {
				let r = guard(|| {
					let mut h = buf2.authority_mut().unwrap();
					apply(&mut h, op);
				});
				if let Err(p) = r {
					fail!(format!("panic-fresh-handle:{}", p.loc), "{:?}: call #{} {} on a fresh handle panicked at {}: {}", initial, k, desc(op), p.loc, p.msg);
				}
			}
			let got2 = String::from_utf8_lossy(buf2.as_bytes()).to_string();
			ensure!(got2 == exp_text, "fresh-handle-text", "{:?}: after {:?} with a fresh handle per call the text is {:?}, expected {:?}", initial, $ops, got2, exp_text);
			// --- the public `unsafe AuthorityMut::new(buffer, start, end)` route on a plain Vec<u8> holding the same text
			// (the range is the authority of a valid reference, so the safety contract holds): same result
			{
				let start = parts0.scheme.as_ref().map(|x| x.len() + 1).unwrap_or(0) + 2;
				let end = start + a0.len();
				let mut raw: Vec<u8> = initial.as_bytes().to_vec();
				let r = guard(|| {
					let mut h = unsafe { AuthorityMut::new(&mut raw, start, end) };
					for op in $ops.iter() { apply(&mut h, op) }
					h.as_authority().as_str().to_string()
				});
				match r {
					Err(p) => fail!(format!("panic-raw-route:{}", p.loc), "{:?}: calls {:?} through `unsafe AuthorityMut::new(vec, {}, {})` panicked at {}: {}", initial, $ops, start, end, p.loc, p.msg),
					Ok(view) => {
						let got3 = String::from_utf8_lossy(&raw).to_string();
						ensure!(got3 == exp_text && Some(&view) == expected.authority.as_ref(), "raw-route-text", "{:?}: after {:?} through `unsafe AuthorityMut::new(vec, {}, {})` the text is {:?} (handle view {:?}), expected {:?}", initial, $ops, start, end, got3, view, exp_text);
					}
				}
			}
			$cx.obs(4);
			Ok(true)
		}};
	}

	pub fn check(case: &Case, ops: &[AOp], cx: &mut Ctx) -> Result<bool, Failure> {
		if case.full {
			run_on!(RiBuf, case, ops, cx)
		} else {
			run_on!(RiRefBuf, case, ops, cx)
		}
	}
}

fn initial(o: Opt, full: bool) -> BoxedStrategy<String> {
	// a reference that has an authority
	(
		gen::opt_of(gen::scheme(), 5),
		gen::authority(o),
		// the empty path (authority at the very end of the buffer) must be frequent
		prop_oneof![1 => Just(vec![]), 3 => gen::segments(o)],
		any::<bool>(),
		gen::opt_of(gen::query(o), 4),
		gen::opt_of(gen::fragment(o), 4),
	)
		.prop_map(move |(scheme, authority, segs, abs, query, fragment)| {
			let p = gen::repair(
				Parts { scheme, authority: Some(authority), path: String::new(), query, fragment },
				abs,
				segs,
				full,
			);
			recompose(&p)
		})
		.boxed()
}

impl Prop for C11 {
	type Case = Case;
	const ID: &'static str = "C11";

	fn rule() -> String {
		"cases = (family, owned type in {full, reference}, initial text with an authority from the C03 pools with any following path/query/fragment, vector of 1-8 (quick) / 1-24 (thorough) calls set_userinfo(Option)/set_host/set_port(Option)/read applied THROUGH ONE HANDLE). Model: (userinfo?, host, port?). Oracle: after every call the handle's as_authority() and Deref view equal the model's rendering; into_authority() likewise; after drop the whole text equals the section 5.3 recomposition with the other four components untouched and re-parses; the same vector with a fresh authority_mut() per call gives the same text. Non-trivial: >= 2 calls with at least one length change, or an IP-literal host (before or after), or a removal.".into()
	}

	fn cases(tier: Tier) -> u64 {
		tier.pick(200_000, 5_000_000)
	}

	fn strategy(tier: Tier) -> BoxedStrategy<Case> {
		let maxops = tier.pick(8usize, 24);
		(gen::fam(), any::<bool>())
			.prop_flat_map(move |(f, full)| {
				let o = Opt::new(f);
				(initial(o, full), vec(aop(o), 1..=maxops), vec(prop_oneof![4 => Just(0u8), 1 => 1u8..5], maxops)).prop_map(move |(initial, ops, derive)| Case { fam: f, full, initial, ops, derive })
			})
			.boxed()
	}

	fn check(case: &Case, cx: &mut Ctx) -> Result<(), Failure> {
		if case.fam == Fam::Uri && !case.initial.is_ascii() {
			cx.class("skipped-nonascii-uri");
			return Ok(());
		}
		let a_init = split_authority(split(&case.initial).authority.as_deref().unwrap_or(""));
		let concrete = materialise(&a_init, &case.ops, &case.derive);
		cx.class_if(concrete != case.ops, "argument-derived-from-current-value");
		let ops: Vec<AOp> = concrete
			.iter()
			.filter(|op| match case.fam {
				Fam::Uri => u::op_valid(op),
				Fam::Iri => i::op_valid(op),
			})
			.cloned()
			.collect();
		let judged = by_fam!(case.fam, check(case, &ops, cx))?;
		if !judged {
			cx.class("rejected-by-library");
			return Ok(());
		}
		cx.class("judged");
		let a0 = split_authority(split(&case.initial).authority.as_deref().unwrap_or(""));
		let mut m = a0.clone();
		let mut len_change = false;
		let mut removal = false;
		let mut ipl = a0.host.starts_with('[');
		let mut calls = 0;
		for op in &ops {
			let before = recompose_authority(&m);
			apply_model(&mut m, op);
			let after = recompose_authority(&m);
			if before.len() != after.len() {
				len_change = true
			}
			if matches!(op, AOp::SetUserinfo(None) | AOp::SetPort(None)) && before != after {
				removal = true
			}
			if m.host.starts_with('[') {
				ipl = true
			}
			if !matches!(op, AOp::Read) {
				calls += 1
			}
		}
		cx.nt_if((calls >= 2 && len_change) || ipl || removal);
		cx.class_if(calls >= 2, "two-or-more-calls");
		cx.class_if(len_change, "length-change");
		cx.class_if(removal, "removal");
		cx.class_if(ipl, "ip-literal");
		cx.class_if(case.full, "full");
		cx.class_if(!case.full, "reference");
		cx.class_if(!case.initial.is_ascii(), "non-ascii");
		cx.class_if(split(&case.initial).scheme.is_none(), "no-scheme");
		{
			let p = split(&case.initial);
			cx.class_if(p.path.is_empty() && p.query.is_none() && p.fragment.is_none(), "authority-at-end-of-buffer");
			cx.class_if(p.path.is_empty(), "empty-path");
		}
		Ok(())
	}

	fn enumerate(tier: Tier, shard: usize, nshards: usize, f: &mut dyn FnMut(Case, bool) -> bool) -> Vec<&'static str> {
		// LONG histories through one handle: k edits of two sub-components between two edits of the third,
		// for k around every small counter width (7, 8, 9, 10 bits; thorough: 16 bits)
		{
			let mut ks: Vec<usize> = vec![63, 64, 65, 127, 128, 129, 255, 256, 257, 300, 511, 512, 513, 1023, 1024, 1025];
			if tier == Tier::Thorough {
				ks.extend([4095, 4096, 4097, 65_535, 65_536, 65_537]);
			}
			let mut gi = 0usize;
			for k in ks {
				for which in 0..3usize {
					gi += 1;
					if gi % nshards != shard {
						continue;
					}
					// `which` is the sub-component edited at both ends; the other two are edited k times in between
					let outer = |v: &str| match which {
						0 => AOp::SetPort(Some(v.to_string())),
						1 => AOp::SetHost(format!("h{v}.example")),
						_ => AOp::SetUserinfo(Some(format!("u{v}"))),
					};
					let inner = |j: usize| match (which, j % 2) {
						(0, 0) => AOp::SetHost(if j % 4 == 0 { "a.example".into() } else { "bb.example".into() }),
						(0, _) => AOp::SetUserinfo(Some(if j % 4 == 1 { "user:pw".into() } else { "u".into() })),
						(1, 0) => AOp::SetPort(Some(if j % 4 == 0 { "80".into() } else { "8080".into() })),
						(1, _) => AOp::SetUserinfo(if j % 4 == 1 { None } else { Some("user".into()) }),
						(_, 0) => AOp::SetPort(if j % 4 == 0 { None } else { Some("1".into()) }),
						(_, _) => AOp::SetHost(if j % 4 == 1 { "[::1]".into() } else { "x".into() }),
					};
					let mut ops = vec![outer("80")];
					ops.extend((0..k).map(inner));
					ops.push(outer("443"));
					ops.push(AOp::Read);
					ops.push(outer("5"));
					let fam = if gi % 2 == 0 { Fam::Uri } else { Fam::Iri };
					if !f(Case { fam, full: gi % 3 == 0, initial: "s://user:pw@a.example:8080/p?q#f".into(), ops, derive: vec![] }, true) {
						return vec![];
					}
				}
			}
		}
		// a 5000-byte sub-component removed / shortened / lengthened in front of a tail of EVERY length 0..=8300
		// (block-wise moves of the tail), plus the usual limits up to 70 000
		for (i, n) in gen::sweep_lengths(8300, 70_000).into_iter().enumerate() {
			if i % nshards != shard {
				continue;
			}
			let big = gen::filler(5000);
			let (initial, ops) = match i % 4 {
				0 => (format!("http://{big}@h/{}", gen::filler(n)), vec![AOp::SetUserinfo(None), AOp::SetHost("g".into())]),
				1 => (format!("http://u@{big}:1{}", if n == 0 { String::new() } else { format!("/{}", gen::filler(n - 1)) }), vec![AOp::SetHost("h".into()), AOp::SetPort(None)]),
				2 => (format!("//u@h:{}?{}", gen::digits(5000), gen::filler(n)), vec![AOp::SetPort(Some("1".into())), AOp::SetUserinfo(Some(big.clone()))]),
				_ => (format!("s://u@h:1/p#{}", gen::filler(n)), vec![AOp::SetHost(big.clone()), AOp::SetHost("h".into()), AOp::SetUserinfo(None)]),
			};
			let fam = if i % 2 == 0 { Fam::Uri } else { Fam::Iri };
			let full = !initial.starts_with("//");
			if !f(Case { fam, full, initial, ops, derive: vec![] }, true) {
				return vec![];
			}
		}
		// a LARGE insertion in front of a LARGE tail, on a buffer with no spare capacity (parsed from a string of
		// exactly that length): 33 000 .. 140 000 bytes inserted, 40 000 .. 200 000 bytes behind
		{
			let mut gi = 0usize;
			for ins in [33_000usize, 66_000, 70_000, 140_000] {
				for tail in [40_000usize, 90_000, 200_000] {
					for shape in 0..4usize {
						gi += 1;
						if gi % nshards != shard {
							continue;
						}
						let t = gen::filler(tail);
						let (initial, ops) = match shape {
							0 => (format!("file:///{t}#f"), vec![AOp::SetUserinfo(Some(gen::filler(ins))), AOp::SetHost("h".into()), AOp::SetPort(Some("1".into()))]),
							1 => (format!("s://h?{t}"), vec![AOp::SetPort(Some(gen::digits(ins))), AOp::SetUserinfo(Some("u".into())), AOp::SetPort(None)]),
							2 => (format!("s://u@h/{t}"), vec![AOp::SetHost(gen::filler(ins)), AOp::SetUserinfo(None), AOp::SetHost("g".into())]),
							_ => (format!("//h:1/{t}?{t}"), vec![AOp::SetUserinfo(Some(gen::filler(ins))), AOp::SetPort(Some(gen::digits(ins))), AOp::SetUserinfo(Some("v".into()))]),
						};
						let fam = if gi % 2 == 0 { Fam::Uri } else { Fam::Iri };
						let full = !initial.starts_with("//");
						if !f(Case { fam, full, initial, ops, derive: vec![] }, true) {
							return vec![];
						}
					}
				}
			}
		}
		// huge sub-components and a huge tail behind the authority
		{
			let mut gi = 0usize;
			for n in gen::huge_sizes(tier).into_iter().chain([(5 << 20) + 1]) {
				let x = gen::filler(n);
				for (initial, ops) in [
					(format!("s://u@h:1/{x}?{x}"), vec![AOp::SetHost("longer.example".into()), AOp::SetUserinfo(Some("user:pw".into())), AOp::SetPort(Some("8080".into())), AOp::SetUserinfo(None), AOp::SetPort(None)]),
					("s://u@h:1/p?q#f".to_string(), vec![AOp::SetHost(x.clone()), AOp::SetUserinfo(Some(x.clone())), AOp::SetPort(Some(gen::digits(n))), AOp::SetHost("g".into()), AOp::SetUserinfo(None), AOp::SetPort(None)]),
					// ... followed on the same thread by an ordinary edit of an ordinary value
					("//user:pw@example.org:8080/p".to_string(), vec![AOp::SetHost("longer.example.org".into()), AOp::SetUserinfo(Some("someone:secret".into())), AOp::SetPort(Some("65535".into()))]),
				] {
					gi += 1;
					if (gi - 1) / 3 % nshards != shard {
						continue;
					}
					if !f(Case { fam: if gi % 2 == 0 { Fam::Uri } else { Fam::Iri }, full: initial.starts_with("s:"), initial, ops, derive: vec![] }, true) {
						return vec![];
					}
				}
			}
		}
		// small complete product: authority shapes x what follows x ALL call sequences of length <= 2
		let uis: [Option<&str>; 4] = [None, Some(""), Some("u"), Some("u:p")];
		let hosts = ["", "h", "[::1]", "1.2.3.4", "longer.example"];
		let ports: [Option<&str>; 3] = [None, Some(""), Some("80")];
		let tails = ["", "/p", "?q", "#f", "/p?q#f"];
		let mut calls: Vec<AOp> = vec![];
		for u in [None, Some(""), Some("x"), Some("y:z:w")] {
			calls.push(AOp::SetUserinfo(u.map(|s: &str| s.to_string())))
		}
		for h in ["", "g", "[v1.a]", "much-longer-host.example.org"] {
			calls.push(AOp::SetHost(h.to_string()))
		}
		for p in [None, Some(""), Some("8080")] {
			calls.push(AOp::SetPort(p.map(|s: &str| s.to_string())))
		}
		let mut seqs: Vec<Vec<AOp>> = calls.iter().map(|c| vec![c.clone()]).collect();
		for a in &calls {
			for b in &calls {
				seqs.push(vec![a.clone(), b.clone()]);
			}
		}
		let mut i = 0usize;
		for scheme in ["", "s:"] {
			for u in uis {
				for h in hosts {
					for p in ports {
						for t in tails {
							let auth = recompose_authority(&AuthParts { userinfo: u.map(|s| s.to_string()), host: h.to_string(), port: p.map(|s| s.to_string()) });
							let initial = format!("{scheme}//{auth}{t}");
							for full in [false, true] {
								if full && scheme.is_empty() {
									continue;
								}
								for ops in &seqs {
									i += 1;
									if i % nshards != shard {
										continue;
									}
									// the IRI family and the URI family alternate (both are ASCII here)
									let fam = if i % 2 == 0 { Fam::Uri } else { Fam::Iri };
									if !f(Case { fam, full, initial: initial.clone(), ops: ops.clone(), derive: vec![] }, true) {
										return vec![];
									}
								}
							}
						}
					}
				}
			}
		}
		vec!["33 000 .. 140 000 bytes inserted in front of 40 000 .. 200 000 bytes (non-periodic text) on a buffer without spare capacity", "a 5000-byte sub-component removed / shortened / lengthened in front of a tail of every length 0..=8300 (and the usual limits up to 70 000)", "histories of k+4 calls through one handle, k = 63..1025 around powers of two (thorough: up to 65 537): one sub-component edited, the other two k times, the first again", "huge (1 MiB+3 .. 5 MiB+1) sub-components and tails, each followed by an ordinary edit on the same thread", "authority shapes (4 user infos x 5 hosts x 3 ports) x 5 tails x all call sequences of length <= 2 over 11 calls"]
	}

	fn floors(_tier: Tier) -> Vec<(&'static str, u64)> {
		vec![
			("judged", 100_000),
			("two-or-more-calls", 50_000),
			("length-change", 50_000),
			("removal", 10_000),
			("ip-literal", 10_000),
			("no-scheme", 10_000),
			("authority-at-end-of-buffer", 5_000),
			("argument-derived-from-current-value", 20_000),
			("empty-path", 15_000),
			("non-ascii", 5_000),
		]
	}
}
