//! C16 — suffix and base extraction are consistent with path prefixes.

use proptest::collection::vec;
use proptest::prelude::*;
use proptest::sample::select;
use serde::{Deserialize, Serialize};

use crate::engine::{guard, Ctx, Failure, Prop, Tier};
use crate::gen::{self, Fam, Opt};
use crate::oracle::norm;
use crate::oracle::pct;
use crate::oracle::split::{recompose, segs, split, split_ranges, Parts};
use crate::{both_families, by_fam, ensure};

#[derive(Debug, Clone, Hash, Serialize, Deserialize)]
pub enum Case {
	/// Path::suffix
	PathSuffix { fam: Fam, value: String, prefix: String },
	/// Ri::suffix (full) or RiRef::suffix
	RefSuffix { fam: Fam, full: bool, value: String, prefix: String },
	/// base()
	Base { fam: Fam, full: bool, value: String },
}

pub struct C16;

#[derive(Debug, Clone, Copy)]
pub enum Alias {
	No,
	SameObject,
	PrefixView(usize),
}

/// Expected remaining segments, or None when no suffix exists.
pub fn expected_suffix(value_path: &str, prefix_path: &str) -> Option<Vec<String>> {
	let (va, vs) = segs(value_path);
	let (pa, ps) = segs(prefix_path);
	if va != pa {
		return None;
	}
	let vn = norm::n(va, &vs);
	let pn = norm::n(pa, &ps);
	if pn.len() > vn.len() {
		return None;
	}
	for (x, y) in pn.iter().zip(vn.iter()) {
		if !pct::eq_dec(x, y) {
			return None;
		}
	}
	Some(vn[pn.len()..].to_vec())
}

both_families! {
	use crate::props::api::within;

	fn judge_suffix_path(what: &str, value: &str, prefix: &str, vpath: &str, ppath: &str, got: Option<&str>, exp: &Option<Vec<String>>) -> Result<(), Failure> {
		match (got, exp) {
			(None, None) => Ok(()),
			(Some(g), None) => Err(Failure::new("suffix-exists-unexpectedly", format!("{what}: suffix of {:?} w.r.t. {:?} = {:?}, but N({:?}) is not a leading part of N({:?}) (or absoluteness / scheme / authority differ)", value, prefix, g, ppath, vpath))),
			(None, Some(e)) => Err(Failure::new("suffix-missing", format!("{what}: suffix of {:?} w.r.t. {:?} is None, expected the remaining segments {:?}", value, prefix, e))),
			(Some(g), Some(e)) => {
				ensure!(Path::new(g).is_ok(), "suffix-invalid-path", "{what}: suffix of {:?} w.r.t. {:?} = {:?} is not a valid path", value, prefix, g);
				ensure!(!g.starts_with('/'), "suffix-not-relative", "{what}: suffix of {:?} w.r.t. {:?} = {:?} is not relative", value, prefix, g);
				ensure!(norm::accept_strict(g, false, e), "suffix-segments", "{what}: suffix of {:?} w.r.t. {:?} = {:?}, expected a rendering of {:?}", value, prefix, g, e);
				// appending to the prefix gives a path equal to the original
				let (pa, ps) = segs(ppath);
				let mut joined = norm::n(pa, &ps);
				joined.extend(norm::unshield(&segs(g).1));
				let (va, vs) = segs(vpath);
				let vn = norm::n(va, &vs);
				ensure!(joined.len() == vn.len() && joined.iter().zip(vn.iter()).all(|(x, y)| pct::eq_dec(x, y)), "suffix-does-not-rebuild", "{what}: N(prefix) ++ suffix = {:?}, N(value) = {:?}", joined, vn);
				Ok(())
			}
		}
	}

	pub fn check(case: &Case, cx: &mut Ctx) -> Result<bool, Failure> {
		check_mode(case, Alias::No, cx)
	}

	/// `Alias::SameObject`: the prefix IS the value (one object); `Alias::PrefixView(k)`: the prefix is the
	/// first k bytes of the value's own buffer, parsed in place (same start address)
	pub fn check_mode(case: &Case, alias: Alias, cx: &mut Ctx) -> Result<bool, Failure> {
		fn pick<'a>(value: &'a str, prefix: &'a str, alias: Alias) -> (&'a str, &'a str) {
			match alias {
				Alias::No => (value, prefix),
				Alias::SameObject => (value, value),
				Alias::PrefixView(k) => (value, &value[..k]),
			}
		}
		match case {
			Case::PathSuffix { value, prefix, .. } => {
				let (value, prefix) = pick(value, prefix, alias);
				let v = match Path::new(value) { Ok(v) => v, Err(_) => return Ok(false) };
				let p = match Path::new(prefix) { Ok(v) => v, Err(_) => return Ok(false) };
				let exp = expected_suffix(value, prefix);
				let got = guard(|| v.suffix(p)).map_err(|pi| Failure::new(format!("suffix-panics:{}", pi.loc), format!("Path {:?}.suffix({:?}) panicked: {}", value, prefix, pi.msg)))?;
				judge_suffix_path("Path::suffix", value, prefix, value, prefix, got.as_ref().map(|b| b.as_str()), &exp)?;
				cx.class_if(exp.is_some(), "suffix-exists");
				cx.class_if(exp.is_none(), "suffix-absent");
				cx.obs(1);
				Ok(true)
			}
			Case::RefSuffix { full, value, prefix, .. } => {
				let (value, prefix) = pick(value, prefix, alias);
				let pv = split(value);
				let pp = split(prefix);
				let comp_ok = pv.scheme == pp.scheme && match (&pv.authority, &pp.authority) { (None, None) => true, (Some(a), Some(b)) => pct::equiv_authority(a, b), _ => false };
				let exp = if comp_ok { expected_suffix(&pv.path, &pp.path) } else { None };
				macro_rules! go {
					($T:ty, $what:expr) => {{
						let v = match <$T>::new(value) { Ok(v) => v, Err(_) => return Ok(false) };
						let p = match <$T>::new(prefix) { Ok(v) => v, Err(_) => return Ok(false) };
						let got = guard(|| v.suffix(p)).map_err(|pi| Failure::new(format!("suffix-panics:{}", pi.loc), format!("{:?}.suffix({:?}) panicked: {}", value, prefix, pi.msg)))?;
						judge_suffix_path($what, value, prefix, &pv.path, &pp.path, got.as_ref().map(|t| t.0.as_str()), &exp)?;
						if let Some((_, q, f)) = &got {
							let gq = q.map(|q| q.as_str().to_string());
							let gf = f.map(|q| q.as_str().to_string());
							ensure!(gq == pv.query && gf == pv.fragment, "suffix-query-fragment", "{}: suffix of {:?}: returned query {:?} fragment {:?}, the value has {:?} {:?}", $what, value, gq, gf, pv.query, pv.fragment);
							if let Some(q) = q { ensure!(within(value.as_bytes(), q.as_bytes()), "suffix-query-not-borrowed", "{}: returned query is not a slice of the value", $what); }
							if let Some(f) = f { ensure!(within(value.as_bytes(), f.as_bytes()), "suffix-fragment-not-borrowed", "{}: returned fragment is not a slice of the value", $what); }
						}
					}};
				}
				if *full { go!(Ri, "Ri::suffix") } else { go!(RiRef, "RiRef::suffix") }
				cx.class_if(exp.is_some(), "suffix-exists");
				cx.class_if(exp.is_none(), "suffix-absent");
				cx.class_if(!comp_ok, "suffix:scheme-or-authority-differs");
				cx.obs(1);
				Ok(true)
			}
			Case::Base { full, value, .. } => {
				let value: &str = value;
				let r = split_ranges(value);
				let path = &value[r.path.0..r.path.1];
				let end = match path.rfind('/') { Some(i) => r.path.0 + i + 1, None => r.path.0 };
				let exp = &value[..end];
				macro_rules! go {
					($T:ty, $what:expr) => {{
						let v = match <$T>::new(value) { Ok(v) => v, Err(_) => return Ok(false) };
						let b = guard(|| v.base().as_str().to_string()).map_err(|pi| Failure::new(format!("base-panics:{}", pi.loc), format!("{:?}.base() panicked: {}", value, pi.msg)))?;
						ensure!(b == exp, "base-text", "{}: base of {:?} = {:?}, expected {:?}", $what, value, b, exp);
						ensure!(<$T>::new(b.as_str()).is_ok(), "base-invalid", "{}: base of {:?} = {:?} is not a valid value of the same type", $what, value, b);
						let pb = split(&b);
						ensure!(pb.query.is_none() && pb.fragment.is_none(), "base-has-query-or-fragment", "{}: base of {:?} = {:?} has a query or fragment", $what, value, b);
						ensure!(within(value.as_bytes(), v.base().as_bytes()) || b.is_empty(), "base-not-borrowed", "{}: base is not a slice of the input", $what);
					}};
				}
				if *full { go!(Ri, "Ri::base") } else { go!(RiRef, "RiRef::base") }
				cx.class("base");
				cx.class_if(!path.contains('/'), "base:path-without-slash");
				cx.obs(1);
				Ok(true)
			}
		}
	}
}

fn stem_pair(o: Opt) -> BoxedStrategy<(bool, Vec<String>, bool, Vec<String>)> {
	// (value abs, value segs, prefix abs, prefix segs)
	let seg = || prop_oneof![6 => gen::plain_segment(o), 2 => select(vec!["".to_string(), ".".to_string(), "..".to_string()]), 1 => gen::segment(o)];
	let rest_s = prop_oneof![
		9 => vec(seg(), 0..4),
		// beyond the 16-segment inline buffer, possibly starting with an empty or colon segment
		1 => (vec(seg(), 0..3), 14usize..40).prop_map(|(mut h, n)| { for i in 0..n { h.push(format!("r{i}")) } h }),
	];
	let stem_s = prop_oneof![
		9 => vec(seg(), 0..4),
		1 => (vec(seg(), 0..3), 14usize..40).prop_map(|(mut h, n)| { for i in 0..n { h.push(format!("s{i}")) } h }),
	];
	(any::<bool>(), 0u8..10, stem_s, rest_s, vec(seg(), 0..3), vec(gen::variant(), 0..2), 0u8..10)
		.prop_map(|(abs, absd, stem, rest, extra, vars, mode)| {
			let mut v = stem.clone();
			v.extend(rest);
			let mut p = stem;
			if mode < 2 {
				p.extend(extra) // prefix longer / diverging
			}
			// equivalence-preserving tweaks of the prefix (pct-encoding, './', 'x/../')
			let pp = Parts { scheme: Some("s".into()), authority: None, path: gen::path_text(true, &p), query: None, fragment: None };
			let mut cur = pp;
			for var in &vars {
				if matches!(var, gen::Variant::Encode(..) | gen::Variant::DecodeUnreserved(_) | gen::Variant::HexCase(_) | gen::Variant::InsertDot(_) | gen::Variant::InsertUpDown(_)) {
					cur = gen::apply_variant(&cur, var);
				}
			}
			let p2 = segs(&cur.path).1;
			(abs, v, if absd == 0 { !abs } else { abs }, p2)
		})
		.boxed()
}

impl Prop for C16 {
	type Case = Case;
	const ID: &'static str = "C16";

	fn rule() -> String {
		"cases: (a) Path::suffix(value, prefix) and (b) Ri/RiRef::suffix, both built around a shared stem (prefix = stem, stem+extra or a diverging path, rewritten with pct-encoding / './' / 'x/../' variants; dot, empty, colon segments; 10 % different absoluteness; for (b) same or different scheme/authority incl. pct-equivalent authorities, queries and fragments on the value); (c) base() of any G-REF value, full and reference types. Oracle: suffix is Some IFF same absoluteness AND equal scheme AND equivalent authority AND N(prefix) is a leading part of N(value) after octet-decoding; then it is a valid relative path that is a strict rendering of the remaining segments, N(prefix)++suffix == N(value), and query/fragment are the value's own slices. base() = input up to and including the last '/' of the Appendix-B path (or up to the path start), valid for the same type, without query/fragment, borrowed from the input. Non-trivial: a suffix exists with >= 1 remaining segment, or it is absent although the texts share a textual prefix, or base() of a value with query/fragment.".into()
	}

	fn cases(tier: Tier) -> u64 {
		tier.pick(200_000, 5_000_000)
	}

	fn strategy(_tier: Tier) -> BoxedStrategy<Case> {
		gen::fam()
			.prop_flat_map(|f| {
				let o = Opt::new(f);
				let ps = stem_pair(o).prop_map(move |(va, vs, pa, ps)| Case::PathSuffix { fam: f, value: gen::path_text(va, &vs), prefix: gen::path_text(pa, &ps) });
				let rs = (stem_pair(o), any::<bool>(), gen::scheme(), gen::scheme(), 0u8..10, gen::opt_of(gen::authority(o), 5), gen::opt_of(gen::authority(o), 5), 0u8..10, gen::opt_of(gen::query(o), 4), gen::opt_of(gen::fragment(o), 4), vec(gen::variant(), 0..2))
					.prop_map(move |((va, vs, pa, ps), full, s1, s2, sd, a1, a2, ad, q, fr, avars)| {
						let scheme_v = if full { Some(s1.clone()) } else if sd < 7 { Some(s1.clone()) } else { None };
						let scheme_p = if sd == 0 { Some(s2) } else { scheme_v.clone() };
						let mut auth_p = if ad == 0 { a2 } else { a1.clone() };
						// pct-equivalent authority on the prefix side
						if let Some(a) = &auth_p {
							let mut cur = Parts { scheme: None, authority: Some(a.clone()), path: String::new(), query: None, fragment: None };
							for v in &avars {
								if matches!(v, gen::Variant::Encode(..) | gen::Variant::HexCase(_)) {
									cur = gen::apply_variant(&cur, v);
								}
							}
							auth_p = cur.authority;
						}
						let v = gen::repair(Parts { scheme: scheme_v, authority: a1, path: String::new(), query: q, fragment: fr }, va, vs, full);
						let p = gen::repair(Parts { scheme: scheme_p, authority: auth_p, path: String::new(), query: None, fragment: None }, pa, ps, full);
						Case::RefSuffix { fam: f, full, value: recompose(&v), prefix: recompose(&p) }
					});
				let base = (any::<bool>(), any::<bool>()).prop_flat_map(move |(full, dotty)| {
					let segs = if dotty { gen::dotty_segments(o) } else { gen::segments(o) };
					gen::ref_parts_with(o, full, segs, 6, 5).prop_map(move |p| Case::Base { fam: f, full, value: recompose(&p) })
				});
				prop_oneof![3 => ps, 4 => rs, 3 => base]
			})
			.boxed()
	}

	fn check(case: &Case, cx: &mut Ctx) -> Result<(), Failure> {
		let (fam, ascii) = match case {
			Case::PathSuffix { fam, value, prefix } => (*fam, value.is_ascii() && prefix.is_ascii()),
			Case::RefSuffix { fam, value, prefix, .. } => (*fam, value.is_ascii() && prefix.is_ascii()),
			Case::Base { fam, value, .. } => (*fam, value.is_ascii()),
		};
		if fam == Fam::Uri && !ascii {
			cx.class("skipped-nonascii-uri");
			return Ok(());
		}
		let judged = by_fam!(fam, check(case, cx))?;
		if !judged {
			cx.class("rejected-by-library");
			return Ok(());
		}
		// the prefix being the value itself (one object), and prefix VIEWS of the value's own buffer
		{
			let tag = |f: Failure| Failure::new(format!("aliased:{}", f.sig), format!("(the prefix is the value itself or a view of the value's buffer) {}", f.msg));
			let (text, valid): (&str, Box<dyn Fn(&str) -> bool>) = match case {
				Case::PathSuffix { fam, value, .. } => (value, match fam { Fam::Uri => Box::new(|p: &str| iref::uri::Path::new(p).is_ok()), Fam::Iri => Box::new(|p: &str| iref::iri::Path::new(p).is_ok()) }),
				Case::RefSuffix { fam, full, value, .. } => (value, match (fam, full) {
					(Fam::Uri, true) => Box::new(|p: &str| iref::Uri::new(p).is_ok()),
					(Fam::Uri, false) => Box::new(|p: &str| iref::UriRef::new(p).is_ok()),
					(Fam::Iri, true) => Box::new(|p: &str| iref::Iri::new(p).is_ok()),
					(Fam::Iri, false) => Box::new(|p: &str| iref::IriRef::new(p).is_ok()),
				}),
				Case::Base { .. } => ("", Box::new(|_| false)),
			};
			if !matches!(case, Case::Base { .. }) {
				by_fam!(fam, check_mode(case, Alias::SameObject, cx)).map_err(tag)?;
				for k in gen::valid_prefix_cuts(text, 5, valid) {
					by_fam!(fam, check_mode(case, Alias::PrefixView(k), cx)).map_err(tag)?;
					cx.class("aliased-prefix-view");
				}
			}
		}
		cx.class("judged");
		match case {
			Case::PathSuffix { value, prefix, .. } => {
				cx.class("path-suffix");
				let e = expected_suffix(value, prefix);
				cx.nt_if(e.as_ref().map(|x| !x.is_empty()).unwrap_or(value.starts_with(prefix.as_str()) && !prefix.is_empty()));
			}
			Case::RefSuffix { value, prefix, .. } => {
				cx.class("ref-suffix");
				let pv = split(value);
				let pp = split(prefix);
				let e = expected_suffix(&pv.path, &pp.path);
				cx.nt_if(e.as_ref().map(|x| !x.is_empty()).unwrap_or(false) || value.starts_with(prefix.as_str()));
				cx.class_if(pv.query.is_some() || pv.fragment.is_some(), "ref-suffix:value-has-query-or-fragment");
			}
			Case::Base { value, .. } => {
				let p = split(value);
				cx.nt_if(p.query.is_some() || p.fragment.is_some() || p.path.contains('/'));
			}
		}
		Ok(())
	}

	fn enumerate(_tier: Tier, shard: usize, nshards: usize, f: &mut dyn FnMut(Case, bool) -> bool) -> Vec<&'static str> {
		// long corresponding segments that are equal once decoded, or differ in exactly one late position:
		// every length 1..=400, and for three lengths every position of the difference
		let mut i = 0usize;
		let mut emit = |value_seg: String, prefix_seg: String, f: &mut dyn FnMut(Case, bool) -> bool| -> bool {
			for (k, case) in [
				Case::PathSuffix { fam: Fam::Uri, value: format!("/{value_seg}/t"), prefix: format!("/{prefix_seg}") },
				Case::PathSuffix { fam: Fam::Iri, value: format!("x/{value_seg}/t/u"), prefix: format!("x/{prefix_seg}/") },
				Case::RefSuffix { fam: Fam::Iri, full: true, value: format!("s://h/{value_seg}/t?q#f"), prefix: format!("s://h/{prefix_seg}") },
				Case::RefSuffix { fam: Fam::Uri, full: false, value: format!("//h/a/{value_seg}?q"), prefix: format!("//h/a/{prefix_seg}") },
			].into_iter().enumerate() {
				i += 1;
				let _ = k;
				if i % nshards != shard {
					continue;
				}
				if !f(case, true) {
					return false;
				}
			}
			true
		};
		for len in 1..=400usize {
			let plain = format!("A{}", "a".repeat(len));
			let enc = format!("%41{}", "a".repeat(len));
			let mut last = enc.clone();
			last.pop();
			last.push('b');
			let mut enc_last = format!("%41{}", "a".repeat(len - 1));
			enc_last.push_str("%62");
			// one side is the other plus ONE more (encoded / literal / NUL) character: a decoder that stops at the
			// shorter side, or at a full buffer, or that does not record the length, calls them equal
			let more_enc = format!("{plain}%62");
			let more_lit = format!("{plain}b");
			let more_nul = format!("{plain}%00");
			for (v, p) in [(enc.clone(), plain.clone()), (plain.clone(), enc.clone()), (enc.clone(), last.clone()), (last.clone(), enc.clone()), (plain.clone(), enc_last.clone()), (enc_last, last.clone()),
				(plain.clone(), more_enc.clone()), (more_enc.clone(), plain.clone()), (more_lit.clone(), more_enc.clone()), (more_enc.clone(), more_lit.clone()), (plain.clone(), more_nul.clone()), (more_nul.clone(), plain.clone()), (enc.clone(), more_nul.clone()), (more_nul, more_lit)] {
				if !emit(v, p, f) {
					return vec![];
				}
			}
		}
		for len in [100usize, 200, 300] {
			let enc = format!("%41{}", "a".repeat(len));
			for j in 0..len {
				let mut other: Vec<u8> = enc.clone().into_bytes();
				other[3 + j] = b'b';
				if !emit(enc.clone(), String::from_utf8(other).unwrap(), f) {
					return vec![];
				}
			}
		}
		vec!["corresponding long segments (every length 1..=400) that are equal once decoded or differ only in their last character, in 4 settings; for lengths 100/200/300 the difference at every position"]
	}

	fn floors(_tier: Tier) -> Vec<(&'static str, u64)> {
		vec![
			("judged", 150_000),
			("path-suffix", 30_000),
			("ref-suffix", 40_000),
			("base", 30_000),
			("suffix-exists", 30_000),
			("suffix-absent", 20_000),
			("suffix:scheme-or-authority-differs", 5_000),
			("base:path-without-slash", 3_000),
			("ref-suffix:value-has-query-or-fragment", 10_000),
		]
	}
}
