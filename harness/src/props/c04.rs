//! C04 — safe mutation never breaks well-formedness (stateful).

use proptest::collection::vec;
use proptest::prelude::*;
use serde::{Deserialize, Serialize};

use crate::engine::{guard, Ctx, Failure, Prop, Tier};
use crate::gen::{self, Fam, Opt};
use crate::oracle::abnf::{self, Ty};
use crate::props::c05::{setop, SetOp};
use crate::props::c10::{pop_strategy, POp};
use crate::props::c11::{aop, AOp};
use crate::{both_families, by_fam, ensure, fail};

#[derive(Debug, Clone, Hash, PartialEq, Eq, Serialize, Deserialize)]
pub enum Op {
	Set(SetOp),
	Auth(Vec<AOp>),
	Path(Vec<POp>),
	Resolve(String),
}

#[derive(Debug, Clone, Hash, PartialEq, Eq, Serialize, Deserialize)]
pub enum Init {
	Parsed { full: bool, text: String },
	DefaultRef,
	FromScheme(String),
	/// IRI family only: parsed as a URI(-reference) buffer, then converted
	ConvertedFromUri { full: bool, text: String },
	/// reference buffer obtained from a full one (into_*_ref) or full from reference (try_into_*)
	ConvertedKind { to_full: bool, text: String },
	PathBuf { text: String },
	DefaultPath,
}

#[derive(Debug, Clone, Hash, Serialize, Deserialize)]
pub struct Case {
	pub fam: Fam,
	pub init: Init,
	pub ops: Vec<Op>,
}

pub struct C04;

fn oracle_valid(fam: Fam, full: bool, is_path: bool, text: &str) -> bool {
	let ty = match (fam, is_path, full) {
		(Fam::Uri, true, _) => Ty::UPath,
		(Fam::Iri, true, _) => Ty::IPath,
		(Fam::Uri, false, true) => Ty::Uri,
		(Fam::Uri, false, false) => Ty::UriRef,
		(Fam::Iri, false, true) => Ty::Iri,
		(Fam::Iri, false, false) => Ty::IriRef,
	};
	abnf::accepts_str(ty, text)
}

both_families! { [c05, c10, c11]

	pub fn op_valid(op: &Op) -> bool {
		match op {
			Op::Set(s) => c05::op_valid(s),
			Op::Auth(v) => v.iter().all(|a| c11::op_valid(a)),
			Op::Path(v) => v.iter().all(|p| c10::op_valid(p)),
			Op::Resolve(b) => Ri::new(b.as_str()).is_ok(),
		}
	}

	fn check_bytes(what: &str, k: usize, op: &Op, hist: &[Op], full: bool, is_path: bool, bytes: &[u8]) -> Result<String, Failure> {
		let kind = match op { Op::Set(SetOp::Scheme(_)) => "set_scheme", Op::Set(SetOp::Authority(_)) => "set_authority", Op::Set(SetOp::Path(_)) => "set_path", Op::Set(SetOp::Query(_)) => "set_query", Op::Set(SetOp::Fragment(_)) => "set_fragment", Op::Auth(_) => "authority_mut", Op::Path(_) => "path_mut", Op::Resolve(_) => "resolve" };
		let text = match std::str::from_utf8(bytes) {
			Ok(t) => t.to_string(),
			Err(_) => fail!(format!("not-utf8:{kind}"), "{what}: after op #{k} {:?} (history {:?}) the buffer is not well-formed UTF-8: {:02x?}", op, hist, bytes),
		};
		let lib_ok = if is_path { Path::new(text.as_str()).is_ok() } else if full { Ri::new(text.as_str()).is_ok() } else { RiRef::new(text.as_str()).is_ok() };
		ensure!(lib_ok, format!("invalid:{kind}"), "{what}: after op #{k} {:?} (history {:?}) the buffer {:?} does not re-parse as the same type", op, hist, text);
		ensure!(oracle_valid(FAM, full, is_path, &text), format!("invalid-per-rfc:{kind}"), "{what}: after op #{k} {:?} the buffer {:?} is not derivable from the RFC production", op, text);
		Ok(text)
	}

	fn apply_auth(h: &mut AuthorityMut, a: &AOp) {
		match a {
			AOp::SetUserinfo(u) => h.set_userinfo(u.as_deref().map(|u| UserInfo::new(u).unwrap())),
			AOp::SetHost(x) => h.set_host(Host::new(x.as_str()).unwrap()),
			AOp::SetPort(p) => h.set_port(p.as_deref().map(|p| Port::new(p).unwrap())),
			AOp::Read => { let _ = h.as_authority().as_str().len(); }
		}
	}

	macro_rules! run_buf {
		($buf:expr, $full:expr, $apply_set:path, $resolve:expr, $what:expr, $ops:expr, $cx:expr) => {{
			let mut buf = $buf;
			let what: String = $what;
			check_bytes(&what, 0, &Op::Path(vec![]), &[], $full, false, buf.as_bytes()).map_err(|f| Failure::new(format!("initial:{}", f.sig), f.msg))?;
			for (k, op) in $ops.iter().enumerate() {
				let r = guard(|| match op {
					Op::Set(s) => $apply_set(&mut buf, s),
					Op::Auth(v) => {
						if let Some(mut h) = buf.authority_mut() {
							for a in v { apply_auth(&mut h, a) }
							let _ = h.as_authority().as_str().len();
						}
					}
					Op::Path(v) => {
						let mut h = buf.path_mut();
						for p in v { c10::apply(&mut h, p) }
						let _ = (*h).as_str().len();
					}
					Op::Resolve(b) => { $resolve(&mut buf, b) }
				});
				if let Err(p) = r {
					fail!(format!("panic:{}", p.loc), "{what}: op #{k} {:?} (history {:?}) panicked at {}: {}", op, &$ops[..k], p.loc, p.msg);
				}
				let text = check_bytes(&what, k, op, &$ops[..k], $full, false, buf.as_bytes())?;
				// accessors trust the buffer: exercise them
				let r = guard(|| {
					let _ = buf.authority().map(|a| (a.user_info().map(|u| u.as_str().len()), a.host().as_str().len(), a.port().map(|p| p.as_str().len())));
					let _ = buf.path().segments().count();
					let _ = buf.path().normalized_segments().count();
					let _ = buf.query().map(|q| q.as_str().len());
					let _ = buf.fragment().map(|q| q.as_str().len());
				});
				if let Err(p) = r {
					fail!(format!("panic-accessor:{}", p.loc), "{what}: accessors panic on {:?} after op #{k} {:?}: {}", text, op, p.msg);
				}
				$cx.obs(1);
			}
			Ok(true)
		}};
	}

	fn no_resolve_full(_b: &mut RiBuf, _base: &str) {}
	fn resolve_ref(b: &mut RiRefBuf, base: &str) { b.resolve(Ri::new(base).unwrap()) }

	pub fn run_parsed(full: bool, text: &str, ops: &[Op], cx: &mut Ctx) -> Result<bool, Failure> {
		if full {
			let b = match RiBuf::new(text.into()) { Ok(b) => b, Err(_) => return Ok(false) };
			run_buf!(b, true, c05::apply_full, no_resolve_full, format!("{:?} (full)", text), ops, cx)
		} else {
			let b = match RiRefBuf::new(text.into()) { Ok(b) => b, Err(_) => return Ok(false) };
			run_buf!(b, false, c05::apply_ref, resolve_ref, format!("{:?} (reference)", text), ops, cx)
		}
	}

	pub fn run_default(ops: &[Op], cx: &mut Ctx) -> Result<bool, Failure> {
		let b = RiRefBuf::default();
		run_buf!(b, false, c05::apply_ref, resolve_ref, "Default reference".to_string(), ops, cx)
	}

	pub fn run_from_scheme(s: &str, ops: &[Op], cx: &mut Ctx) -> Result<bool, Failure> {
		let sb = match SchemeBuf::new(s.as_bytes().to_vec()) { Ok(s) => s, Err(_) => return Ok(false) };
		let b = RiBuf::from_scheme(sb);
		run_buf!(b, true, c05::apply_full, no_resolve_full, format!("from_scheme({:?})", s), ops, cx)
	}

	pub fn run_kind(to_full: bool, text: &str, ops: &[Op], cx: &mut Ctx) -> Result<bool, Failure> {
		if to_full {
			let r = match RiRefBuf::new(text.into()) { Ok(b) => b, Err(_) => return Ok(false) };
			let b = match r.try_into_ri() { Some(b) => b, None => return Ok(false) };
			run_buf!(b, true, c05::apply_full, no_resolve_full, format!("{:?} (reference converted to full)", text), ops, cx)
		} else {
			let r = match RiBuf::new(text.into()) { Ok(b) => b, Err(_) => return Ok(false) };
			let b = r.into_ri_ref();
			run_buf!(b, false, c05::apply_ref, resolve_ref, format!("{:?} (full converted to reference)", text), ops, cx)
		}
	}

	pub fn run_path(text: Option<&str>, ops: &[Op], cx: &mut Ctx) -> Result<bool, Failure> {
		let mut pb = match text { Some(t) => match PathBuf::new(t.into()) { Ok(p) => p, Err(_) => return Ok(false) }, None => PathBuf::default() };
		let what = format!("PathBuf {:?}", text);
		let mut hist = vec![];
		for (k, op) in ops.iter().enumerate() {
			let v = match op { Op::Path(v) => v, _ => continue };
			let r = guard(|| {
				// alternate between one handle for the vector and the PathBuf convenience methods
				if k % 2 == 0 {
					let mut h = pb.as_path_mut();
					for p in v { c10::apply(&mut h, p) }
				} else {
					for p in v {
						match p {
							POp::Push(s) => pb.push(Segment::new(s.as_str()).unwrap()),
							POp::Pop => pb.pop(),
							POp::Clear => pb.clear(),
							POp::SymPush(s) => pb.symbolic_push(Segment::new(s.as_str()).unwrap()),
							POp::SymAppend(l) => { let sg: Vec<&Segment> = l.iter().map(|s| Segment::new(s.as_str()).unwrap()).collect(); pb.symbolic_append(sg) }
							POp::Normalize => pb.normalize(),
							POp::Read => {}
						}
					}
				}
			});
			if let Err(p) = r {
				fail!(format!("panic:{}", p.loc), "{what}: op #{k} {:?} (history {:?}) panicked at {}: {}", op, hist, p.loc, p.msg);
			}
			check_bytes(&what, k, op, &hist, false, true, pb.as_bytes())?;
			hist.push(op.clone());
			cx.obs(1);
		}
		Ok(true)
	}
}

trait RefConv {
	type Full;
	fn try_into_ri(self) -> Option<Self::Full>;
}
trait FullConv {
	type Ref;
	fn into_ri_ref(self) -> Self::Ref;
}
impl RefConv for iref::UriRefBuf {
	type Full = iref::UriBuf;
	fn try_into_ri(self) -> Option<iref::UriBuf> {
		self.try_into_uri().ok()
	}
}
impl RefConv for iref::IriRefBuf {
	type Full = iref::IriBuf;
	fn try_into_ri(self) -> Option<iref::IriBuf> {
		self.try_into_iri().ok()
	}
}
impl FullConv for iref::UriBuf {
	type Ref = iref::UriRefBuf;
	fn into_ri_ref(self) -> iref::UriRefBuf {
		self.into_uri_ref()
	}
}
impl FullConv for iref::IriBuf {
	type Ref = iref::IriRefBuf;
	fn into_ri_ref(self) -> iref::IriRefBuf {
		self.into_iri_ref()
	}
}

/// IRI buffers obtained by converting URI buffers.
fn run_converted_from_uri(full: bool, text: &str, ops: &[Op], cx: &mut Ctx) -> Result<bool, Failure> {
	if !text.is_ascii() {
		return Ok(false);
	}
	if full {
		let b = match iref::UriBuf::new(text.as_bytes().to_vec()) {
			Ok(b) => b,
			Err(_) => return Ok(false),
		};
		let t = b.into_iri().as_str().to_string();
		ensure!(t == text, "conversion-changed-text", "UriBuf::into_iri changed {:?} to {:?}", text, t);
		i::run_parsed(true, &t, ops, cx)
	} else {
		let b = match iref::UriRefBuf::new(text.as_bytes().to_vec()) {
			Ok(b) => b,
			Err(_) => return Ok(false),
		};
		let t = b.into_iri_ref().as_str().to_string();
		ensure!(t == text, "conversion-changed-text", "UriRefBuf::into_iri_ref changed {:?} to {:?}", text, t);
		i::run_parsed(false, &t, ops, cx)
	}
}

pub fn op_strategy(o: Opt, full: bool, tier: Tier) -> BoxedStrategy<Op> {
	let n = tier.pick(4usize, 8);
	// arguments may contain characters their type must reject: they are filtered through the
	// library's own constructor, so a constructor that is too lax shows up as an ill-formed buffer
	let o = o.with_invalid(true);
	prop_oneof![
		5 => setop(o, full).prop_map(Op::Set),
		2 => vec(aop(o), 1..=n).prop_map(Op::Auth),
		4 => vec(pop_strategy(o), 1..=n).prop_map(Op::Path),
		1 => gen::reference(o, true).prop_map(Op::Resolve),
	]
	.boxed()
}

impl Prop for C04 {
	type Case = Case;
	const ID: &'static str = "C04";

	fn rule() -> String {
		"cases = (family, initial buffer, op vector). Initial buffers: parsed full/reference text from G-REF, RiRefBuf::default(), RiBuf::from_scheme, IRI buffers converted from URI buffers, full<->reference conversions, PathBuf parsed/default. Ops (1-8 quick / 1-20 thorough per case): the five setters with pool values and removal, authority_mut() with a nested vector of set_userinfo/set_host/set_port/read on one handle, path_mut() with a nested vector of push/pop/clear/symbolic_push/symbolic_append/normalize on one handle, resolve(base) for reference buffers. Oracle after EVERY op: bytes are UTF-8, text re-parses with the checked constructor of the same type AND with the independent RFC recogniser, no panic, all accessors run without panicking. Non-trivial: >= 2 ops of different kinds, or a nested handle with >= 2 edits, or an op needing disambiguation (colon-bearing first segment, '//' path, authority/scheme removal).".into()
	}

	fn cases(tier: Tier) -> u64 {
		tier.pick(200_000, 5_000_000)
	}

	fn strategy(tier: Tier) -> BoxedStrategy<Case> {
		let maxops = tier.pick(8usize, 20);
		gen::fam()
			.prop_flat_map(move |f| {
				let o = Opt::new(f).with_nonutf8(true);
				let init = prop_oneof![
					10 => (any::<bool>(), any::<bool>()).prop_flat_map(move |(full, _)| gen::reference(o, full).prop_map(move |text| Init::Parsed { full, text })),
					2 => Just(Init::DefaultRef),
					2 => gen::scheme().prop_map(Init::FromScheme),
					2 => any::<bool>().prop_flat_map(move |full| gen::reference(Opt::new(Fam::Uri), full).prop_map(move |text| Init::ConvertedFromUri { full, text })),
					2 => any::<bool>().prop_flat_map(move |to_full| gen::reference(o, true).prop_map(move |text| Init::ConvertedKind { to_full, text })),
					3 => gen::path(o).prop_map(|text| Init::PathBuf { text }),
					1 => Just(Init::DefaultPath),
				];
				init.prop_flat_map(move |init| {
					let full = match &init {
						Init::Parsed { full, .. } => *full,
						Init::FromScheme(_) => true,
						Init::ConvertedFromUri { full, .. } => *full,
						Init::ConvertedKind { to_full, .. } => *to_full,
						_ => false,
					};
					let ops = match &init {
						Init::PathBuf { .. } | Init::DefaultPath => vec(vec(pop_strategy(o), 1..=4).prop_map(Op::Path), 1..=maxops).boxed(),
						_ => vec(op_strategy(o, full, tier), 1..=maxops).boxed(),
					};
					ops.prop_map(move |ops| Case { fam: f, init: init.clone(), ops })
				})
			})
			.boxed()
	}

	fn check(case: &Case, cx: &mut Ctx) -> Result<(), Failure> {
		let init_text = match &case.init {
			Init::Parsed { text, .. } | Init::ConvertedFromUri { text, .. } | Init::ConvertedKind { text, .. } | Init::PathBuf { text } => text.as_str(),
			Init::FromScheme(s) => s.as_str(),
			_ => "",
		};
		if case.fam == Fam::Uri && !init_text.is_ascii() {
			cx.class("skipped-nonascii-uri");
			return Ok(());
		}
		let ops: Vec<Op> = case
			.ops
			.iter()
			.filter(|op| match case.fam {
				Fam::Uri => u::op_valid(op),
				Fam::Iri => i::op_valid(op),
			})
			.filter(|op| {
				let full = matches!(&case.init, Init::Parsed { full: true, .. } | Init::FromScheme(_) | Init::ConvertedFromUri { full: true, .. } | Init::ConvertedKind { to_full: true, .. });
				!(full && matches!(op, Op::Set(SetOp::Scheme(None)) | Op::Resolve(_)))
			})
			.cloned()
			.collect();
		let judged = match &case.init {
			Init::Parsed { full, text } => by_fam!(case.fam, run_parsed(*full, text, &ops, cx))?,
			Init::DefaultRef => by_fam!(case.fam, run_default(&ops, cx))?,
			Init::FromScheme(s) => by_fam!(case.fam, run_from_scheme(s, &ops, cx))?,
			Init::ConvertedFromUri { full, text } => {
				if case.fam == Fam::Iri {
					run_converted_from_uri(*full, text, &ops, cx)?
				} else {
					by_fam!(case.fam, run_parsed(*full, text, &ops, cx))?
				}
			}
			Init::ConvertedKind { to_full, text } => by_fam!(case.fam, run_kind(*to_full, text, &ops, cx))?,
			Init::PathBuf { text } => by_fam!(case.fam, run_path(Some(text.as_str()), &ops, cx))?,
			Init::DefaultPath => by_fam!(case.fam, run_path(None, &ops, cx))?,
		};
		if !judged {
			cx.class("rejected-by-library");
			return Ok(());
		}
		cx.class("judged");
		let kinds: std::collections::HashSet<u8> = ops
			.iter()
			.map(|o| match o {
				Op::Set(_) => 0u8,
				Op::Auth(_) => 1,
				Op::Path(_) => 2,
				Op::Resolve(_) => 3,
			})
			.collect();
		let nested2 = ops.iter().any(|o| match o {
			Op::Auth(v) => v.iter().filter(|a| !matches!(a, AOp::Read)).count() >= 2,
			Op::Path(v) => v.iter().filter(|a| !matches!(a, POp::Read)).count() >= 2,
			_ => false,
		});
		let disamb = ops.iter().any(|o| match o {
			Op::Set(SetOp::Scheme(None)) | Op::Set(SetOp::Authority(None)) => true,
			Op::Set(SetOp::Path(p)) => p.starts_with("//") || p.split('/').next().unwrap_or("").contains(':'),
			Op::Path(v) => v.iter().any(|p| match p {
				POp::Push(s) | POp::SymPush(s) => s.is_empty() || s.contains(':'),
				_ => false,
			}),
			_ => false,
		});
		cx.nt_if(kinds.len() >= 2 || nested2 || disamb);
		cx.class(match &case.init {
			Init::Parsed { full: true, .. } => "init:parsed-full",
			Init::Parsed { .. } => "init:parsed-reference",
			Init::DefaultRef => "init:default-reference",
			Init::FromScheme(_) => "init:from_scheme",
			Init::ConvertedFromUri { .. } => "init:converted-from-uri",
			Init::ConvertedKind { .. } => "init:converted-kind",
			Init::PathBuf { .. } => "init:pathbuf",
			Init::DefaultPath => "init:default-pathbuf",
		});
		cx.class_if(kinds.contains(&3), "has-resolve");
		cx.class_if(kinds.contains(&1), "has-authority_mut");
		cx.class_if(kinds.contains(&2), "has-path_mut");
		cx.class_if(nested2, "nested-handle-two-edits");
		cx.class_if(disamb, "needs-disambiguation");
		cx.class_if(kinds.len() >= 2, "two-kinds-of-ops");
		Ok(())
	}

	fn enumerate(tier: Tier, shard: usize, nshards: usize, f: &mut dyn FnMut(Case, bool) -> bool) -> Vec<&'static str> {
		// huge arguments and huge buffers (>= 1 MiB), each followed ON THE SAME THREAD by a small case of the
		// same kind (scratch space reused between calls must not leak from one value into the next)
		{
			let mut groups: Vec<Vec<Case>> = vec![];
			for (k, n) in gen::huge_sizes(tier).into_iter().enumerate() {
				let x = gen::filler(n);
				let fam = if k % 2 == 0 { Fam::Iri } else { Fam::Uri };
				let parsed = |full: bool, text: String, ops: Vec<Op>| Case { fam, init: Init::Parsed { full, text }, ops };
				let small_norm = parsed(false, "x/./y/../z".into(), vec![Op::Path(vec![POp::Normalize])]);
				groups.push(vec![parsed(true, format!("s:1:{x}/."), vec![Op::Path(vec![POp::Normalize])]), small_norm.clone(), parsed(true, "s:/a/./b".into(), vec![Op::Path(vec![POp::Normalize]), Op::Resolve("s:/c/d".into())])]);
				groups.push(vec![parsed(false, format!("{x}/../{x}/./b"), vec![Op::Path(vec![POp::Normalize]), Op::Resolve(format!("s://h/{x}/c"))]), small_norm.clone()]);
				groups.push(vec![
					parsed(true, "s://u@h:1/p?q#f".into(), vec![Op::Set(SetOp::Path(format!("/{x}"))), Op::Set(SetOp::Path("/p".into())), Op::Set(SetOp::Query(Some(x.clone()))), Op::Set(SetOp::Fragment(Some(x.clone()))), Op::Set(SetOp::Query(Some("r".into())))]),
					parsed(true, "s://u@h:1/p?q#f".into(), vec![Op::Set(SetOp::Query(Some("rr".into()))), Op::Set(SetOp::Path("/pp".into()))]),
				]);
				groups.push(vec![
					parsed(false, "//h/p?q#f".into(), vec![Op::Set(SetOp::Fragment(Some(x.clone()))), Op::Set(SetOp::Authority(Some(x.clone()))), Op::Set(SetOp::Query(Some(x.clone()))), Op::Set(SetOp::Authority(None)), Op::Set(SetOp::Scheme(Some("x".into())))]),
					parsed(false, format!("//h/{x}?{x}#{x}"), vec![Op::Set(SetOp::Path("/p".into())), Op::Set(SetOp::Query(None)), Op::Set(SetOp::Path(format!("/{x}/{x}"))), Op::Set(SetOp::Fragment(None))]),
				]);
				groups.push(vec![
					parsed(false, "//h/./".into(), vec![Op::Path(vec![POp::Push(x.clone())]), Op::Path(vec![POp::Pop, POp::SymPush(x.clone()), POp::SymPush("..".into()), POp::Push(format!("1:{x}"))])]),
					parsed(false, "a/b".into(), vec![Op::Path(vec![POp::Push(x.clone()), POp::Pop, POp::Push("c".into())])]),
				]);
				groups.push(vec![
					parsed(true, "s://u@h:1/p".into(), vec![Op::Auth(vec![AOp::SetHost(x.clone()), AOp::SetUserinfo(Some(x.clone()))]), Op::Auth(vec![AOp::SetPort(Some(gen::digits(n))), AOp::SetHost("g".into()), AOp::SetUserinfo(None), AOp::SetPort(None)])]),
					parsed(true, "s://u@h:1/p".into(), vec![Op::Auth(vec![AOp::SetHost("gg".into()), AOp::SetUserinfo(Some("vv".into()))])]),
				]);
			}
			for (gi, g) in groups.into_iter().enumerate() {
				if gi % nshards != shard {
					continue;
				}
				for c in g {
					if !f(c, true) {
						return vec![];
					}
				}
			}
		}
		// lengths: scheme, first segment with ':' at every offset, through the calls that must add a shield
		for (i, n) in gen::sweep_lengths(1100, 70_000).into_iter().enumerate() {
			if i % nshards != shard {
				continue;
			}
			let u = "_".repeat(n);
			let x = gen::filler(n);
			let fam = if i % 2 == 0 { Fam::Uri } else { Fam::Iri };
			for case in [
				Case { fam, init: Init::PathBuf { text: format!("a:{}", gen::filler(n)) }, ops: vec![Op::Path(vec![POp::Normalize])] },
				Case { fam, init: Init::PathBuf { text: format!("x/../{u}:b") }, ops: vec![Op::Path(vec![POp::Normalize, POp::Push("c".into())])] },
				Case { fam, init: Init::Parsed { full: false, text: format!("s:{u}:b/c") }, ops: vec![Op::Set(SetOp::Scheme(None)), Op::Path(vec![POp::Normalize])] },
				Case { fam, init: Init::Parsed { full: false, text: "?q".into() }, ops: vec![Op::Set(SetOp::Path(format!("{u}:b"))), Op::Path(vec![POp::Pop, POp::Push(format!("{u}:c"))])] },
				Case { fam, init: Init::Parsed { full: true, text: format!("s{x}://h//b/c") }, ops: vec![Op::Set(SetOp::Authority(None)), Op::Resolve(format!("t{x}://g/"))] },
			] {
				if !f(case, true) {
					return vec![];
				}
			}
		}
		// every history of length <= 2 over a small op alphabet, from buffers of every shape
		let inits = ["", "s:", "//h", "s://u@h:1/p?q#f", "./a:b", "/.//a", "s:a:b", "s://h", "?q", "#f", "s://", "a/b/../c", "s:/"];
		let mut alphabet: Vec<Op> = vec![];
		for v in [None, Some("x")] {
			alphabet.push(Op::Set(SetOp::Scheme(v.map(|s: &str| s.to_string()))))
		}
		for v in [None, Some(""), Some("g:")] {
			alphabet.push(Op::Set(SetOp::Authority(v.map(|s: &str| s.to_string()))))
		}
		for v in ["", "p", "/p", "a:b", "//x", ":"] {
			alphabet.push(Op::Set(SetOp::Path(v.to_string())))
		}
		for v in [None, Some("r")] {
			alphabet.push(Op::Set(SetOp::Query(v.map(|s: &str| s.to_string()))));
			alphabet.push(Op::Set(SetOp::Fragment(v.map(|s: &str| s.to_string()))));
		}
		for p in [POp::Push("a".into()), POp::Push("".into()), POp::Push("a:b".into()), POp::Push("..".into()), POp::Pop, POp::Clear, POp::SymPush("..".into()), POp::Normalize] {
			alphabet.push(Op::Path(vec![p]))
		}
		for a in [AOp::SetUserinfo(Some("u".into())), AOp::SetUserinfo(None), AOp::SetHost("".into()), AOp::SetHost("[::1]".into()), AOp::SetPort(Some("".into())), AOp::SetPort(None)] {
			alphabet.push(Op::Auth(vec![a.clone(), a]))
		}
		alphabet.push(Op::Resolve("s:/b".into()));
		alphabet.push(Op::Resolve("s://h/b/c?q".into()));
		let mut seqs: Vec<Vec<Op>> = alphabet.iter().map(|o| vec![o.clone()]).collect();
		for a in &alphabet {
			for b in &alphabet {
				seqs.push(vec![a.clone(), b.clone()]);
			}
		}
		let mut i = 0usize;
		for t in inits {
			for full in [false, true] {
				for ops in &seqs {
					i += 1;
					if i % nshards != shard {
						continue;
					}
					let fam = if i % 2 == 0 { Fam::Uri } else { Fam::Iri };
					if !f(Case { fam, init: Init::Parsed { full, text: t.to_string() }, ops: ops.clone() }, true) {
						return vec![];
					}
				}
			}
		}
		vec!["scheme lengths and first segments with ':' at every offset 0..=1100 (and the usual limits up to 70 000) through normalize / set_scheme(None) / set_path / push / set_authority(None) / resolve", "huge arguments / buffers (1 MiB+3 and 2 MiB; thorough: 64 KiB+1 .. 8 MiB+1) through every setter, both handles, normalize and resolve, each followed by a small case on the same thread", "13 initial buffers x {reference, full} x every history of length <= 2 over 31 ops (setters incl. removal, one-op path handles, two-op authority handles, resolve)"]
	}

	fn floors(_tier: Tier) -> Vec<(&'static str, u64)> {
		vec![
			("judged", 120_000),
			("init:parsed-full", 10_000),
			("init:parsed-reference", 10_000),
			("init:default-reference", 5_000),
			("init:from_scheme", 5_000),
			("init:converted-from-uri", 3_000),
			("init:converted-kind", 5_000),
			("init:pathbuf", 10_000),
			("init:default-pathbuf", 3_000),
			("has-resolve", 5_000),
			("has-authority_mut", 20_000),
			("has-path_mut", 50_000),
			("nested-handle-two-edits", 50_000),
			("needs-disambiguation", 30_000),
			("two-kinds-of-ops", 50_000),
		]
	}
}
