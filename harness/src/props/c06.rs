//! C06 — reference resolution implements RFC 3986 5.2 (with Errata 4547).

use proptest::prelude::*;
use serde::{Deserialize, Serialize};

use crate::engine::{guard, Ctx, Failure, Prop, Tier};
use crate::gen::{self, Fam, Opt};
use crate::oracle::norm;
use crate::oracle::resolve::{branch, merge, resolve_parts};
#[allow(unused_imports)]
use crate::oracle::resolve;
use crate::oracle::split::{recompose, segs, split, Parts};
use crate::{both_families, by_fam, ensure, fail, soft_fail};

#[derive(Debug, Clone, Hash, Serialize, Deserialize)]
pub struct Case {
	pub fam: Fam,
	pub base: String,
	pub reference: String,
}

pub struct C06;

pub const QUIRK_SIG: &str = "merge-ignores-empty-segment-on-empty-path";

/// Expected merged-path segments under the recorded quirk (see C10/C09): the
/// base directory is normalised normally, then the reference's segments are
/// applied with an empty segment ignored while the list is empty. Used ONLY to
/// attribute a failure to the known finding.
pub fn quirk_merge(base: &Parts, rpath: &str) -> Option<(bool, Vec<String>)> {
	if base.authority.is_some() && base.path.is_empty() {
		let (_, rs) = segs(rpath);
		return Some((true, crate::props::c09::quirk_e(true, &rs)));
	}
	let (babs, bs) = segs(&base.path);
	let parent: Vec<String> = if bs.is_empty() { vec![] } else { bs[..bs.len() - 1].to_vec() };
	let mut l = norm::n(babs, &parent);
	let (_, rs) = segs(rpath);
	let mut open = false;
	for x in &rs {
		match x.as_str() {
			"." => open = true,
			".." => {
				if l.is_empty() {
					if !babs {
						l.push("..".into())
					}
				} else if l.last().map(|y| y == "..").unwrap_or(false) {
					l.push("..".into())
				} else {
					l.pop();
				}
				open = true
			}
			_ => {
				if !(x.is_empty() && l.is_empty()) {
					l.push(x.clone())
				}
				open = false
			}
		}
	}
	if open && !l.is_empty() {
		l.push(String::new())
	}
	Some((babs || base.authority.is_some(), l))
}

/// Judges one observed result text against the RFC target.
pub fn judge_text(cx: &mut Ctx, what: &str, base: &str, reference: &str, got: &str, valid: bool) -> Result<(), Failure> {
	let b = split(base);
	let r = split(reference);
	let t = resolve_parts(&b, &r);
	let target = recompose(&t);
	let br = branch(&r);
	ensure!(valid, format!("result-invalid:{br}"), "{what}: resolving {:?} against {:?} gives {:?}, which does not re-parse as a full URI/IRI (RFC target {:?})", reference, base, got, target);
	let g = split(got);
	ensure!(g.scheme.is_some(), "result-without-scheme", "{what}: resolving {:?} against {:?} gives {:?} without a scheme", reference, base, got);
	if split(&target) == t {
		if got == target {
			return Ok(());
		}
	} else {
		// ambiguous RFC target (no authority, path starts with "//")
		let (tabs, tsegs) = segs(&t.path);
		if g.scheme == t.scheme && g.authority == t.authority && g.query == t.query && g.fragment == t.fragment && norm::accept_textual(&g.path, tabs, &tsegs) {
			cx.class("ambiguous-target");
			return Ok(());
		}
	}
	// degenerate relative paths: accept the literal 5.2.4 reading too
	if let Some(pre) = crate::oracle::resolve::path_before_rds(&b, &r) {
		if crate::oracle::resolve::degenerate(&pre) && g.scheme == t.scheme && g.authority == t.authority && g.query == t.query && g.fragment == t.fragment {
			let lit = norm::remove_dot_segments(&pre);
			let (labs, lsegs) = segs(&lit);
			let (_, ps) = segs(&pre);
			let e = norm::e(false, &ps);
			if norm::accept_textual(&g.path, labs, &lsegs) || norm::accept_textual(&g.path, false, &e) {
				cx.class("degenerate-relative-leading-empty");
				return Ok(());
			}
		}
	}
	// classify the difference
	let what_differs = if g.scheme != t.scheme { "scheme" } else if g.authority != t.authority { "authority" } else if g.query != t.query { "query" } else if g.fragment != t.fragment { "fragment" } else { "path" };
	if what_differs == "path" && br == "relative-path" {
		if let Some((qabs, ql)) = quirk_merge(&b, &r.path) {
			let (tabs, tsegs) = segs(&t.path);
			if (qabs, &ql) != (tabs, &tsegs) && norm::accept_textual(&g.path, qabs, &ql) {
				soft_fail!(cx, QUIRK_SIG, "{what}: resolving {:?} against {:?} gives {:?}; RFC 3986 5.2 target is {:?} (an empty segment of the reference was ignored because it arrived on an empty merged path)", reference, base, got, target);
				return Ok(());
			}
		}
	}
	fail!(format!("{what_differs}:{br}"), "{what}: resolving {:?} against {:?} gives {:?}; RFC 3986 5.2 target is {:?} (branch: {br})", reference, base, got, target);
}

both_families! {
	pub fn resolve_all(case: &Case) -> Result<Option<(String, String, String)>, Failure> {
		let base = match Ri::new(case.base.as_str()) { Ok(b) => b, Err(_) => return Ok(None) };
		let r = match RiRef::new(case.reference.as_str()) { Ok(r) => r, Err(_) => return Ok(None) };
		let a = guard(|| r.resolved(base)).map_err(|p| Failure::new(format!("panic:{}", p.loc), format!("resolved({:?}, base {:?}) panicked at {}: {}", case.reference, case.base, p.loc, p.msg)))?;
		let mut buf = RiRefBuf::new(case.reference.as_str().into()).unwrap();
		guard(|| buf.resolve(base)).map_err(|p| Failure::new(format!("panic:{}", p.loc), format!("resolve({:?}, base {:?}) panicked at {}: {}", case.reference, case.base, p.loc, p.msg)))?;
		let buf2 = RiRefBuf::new(case.reference.as_str().into()).unwrap();
		let c = guard(|| buf2.into_resolved(base)).map_err(|p| Failure::new(format!("panic:{}", p.loc), format!("into_resolved({:?}, base {:?}) panicked at {}: {}", case.reference, case.base, p.loc, p.msg)))?;
		ensure!(base.as_str() == case.base, "base-changed", "base text changed");
		Ok(Some((String::from_utf8_lossy(a.as_bytes()).to_string(), String::from_utf8_lossy(buf.as_bytes()).to_string(), String::from_utf8_lossy(c.as_bytes()).to_string())))
	}

	pub fn valid_full(s: &str) -> bool { Ri::new(s).is_ok() }

	/// `resolved()` on two values parsed IN PLACE from the given slices (which may be views of one buffer).
	pub fn resolved_in_place(base: &str, reference: &str) -> Result<Option<String>, Failure> {
		let b = match Ri::new(base) { Ok(b) => b, Err(_) => return Ok(None) };
		let r = match RiRef::new(reference) { Ok(r) => r, Err(_) => return Ok(None) };
		let a = guard(|| r.resolved(b)).map_err(|p| Failure::new(format!("panic:{}", p.loc), format!("resolved({:?}, base {:?}) panicked at {}: {}", reference, base, p.loc, p.msg)))?;
		Ok(Some(String::from_utf8_lossy(a.as_bytes()).to_string()))
	}
}

pub fn pair(o: Opt) -> BoxedStrategy<(String, String)> {
	let base = gen::ref_parts_with(o, true, prop_oneof![2 => gen::dotty_segments(o), 1 => gen::segments(o)].boxed(), 10, 5).prop_map(|p| recompose(&p));
	let reference = prop_oneof![
		// relative-path and absolute-path branches dominate
		6 => gen::ref_parts_with(o, false, gen::dotty_segments(o), 1, 1),
		2 => gen::ref_parts_with(o, false, gen::dotty_segments(o), 5, 5),
		1 => gen::ref_parts_with(o, false, gen::segments(o), 3, 3),
	]
	.prop_map(|p| recompose(&p));
	(base, reference).boxed()
}

impl Prop for C06 {
	type Case = Case;
	const ID: &'static str = "C06";

	fn rule() -> String {
		"cases = (family, base URI/IRI, reference). Bases: with/without authority, empty/absolute/rootless paths, dot and empty segments. References: all five 5.2.2 branches with mixtures of '.', '..', empty and ordinary segments (dot-rich generator), queries, fragments. Oracle: own RFC 3986 5.2.2/5.2.3/5.2.4(+Errata 4547)/5.3 implementation on Appendix-B components: byte-identical result when the target re-parses to the same components, otherwise (no authority, path starting '//') a valid result with the target's scheme/authority/query/fragment and a textual rendering of the target path. resolved(), resolve() in place and into_resolved() agree; on ASCII input the URI and IRI families agree. Non-trivial: the reference is not already absolute and dot-free.".into()
	}

	fn cases(tier: Tier) -> u64 {
		tier.pick(300_000, 8_000_000)
	}

	fn strategy(_tier: Tier) -> BoxedStrategy<Case> {
		gen::fam()
			.prop_flat_map(|f| pair(Opt::new(f).with_nonutf8(true)).prop_map(move |(base, reference)| Case { fam: f, base, reference }))
			.boxed()
	}

	fn check(case: &Case, cx: &mut Ctx) -> Result<(), Failure> {
		let ascii = case.base.is_ascii() && case.reference.is_ascii();
		if case.fam == Fam::Uri && !ascii {
			cx.class("skipped-nonascii-uri");
			return Ok(());
		}
		let got = match by_fam!(case.fam, resolve_all(case))? {
			Some(g) => g,
			None => {
				cx.class("rejected-by-library");
				return Ok(());
			}
		};
		let valid = |s: &str| match case.fam {
			Fam::Uri => u::valid_full(s),
			Fam::Iri => i::valid_full(s),
		};
		judge_text(cx, "resolved()", &case.base, &case.reference, &got.0, valid(&got.0))?;
		ensure!(got.1 == got.0, "entry-points-differ:resolve", "resolve() in place gives {:?}, resolved() gives {:?} ({:?} against {:?})", got.1, got.0, case.reference, case.base);
		ensure!(got.2 == got.0, "entry-points-differ:into_resolved", "into_resolved() gives {:?}, resolved() gives {:?} ({:?} against {:?})", got.2, got.0, case.reference, case.base);
		cx.obs(3);
		if ascii {
			let other = Case { fam: if case.fam == Fam::Uri { Fam::Iri } else { Fam::Uri }, base: case.base.clone(), reference: case.reference.clone() };
			if let Some(o) = by_fam!(other.fam, resolve_all(&other))? {
				ensure!(o.0 == got.0, "families-differ", "URI and IRI families resolve {:?} against {:?} differently: {:?} vs {:?}", case.reference, case.base, got.0, o.0);
				cx.obs(1);
				cx.class("both-families");
			}
		}
		// the same reference against a SIBLING base (authority toggled, same path text) right after, then the
		// original again: results must not depend on what was resolved before on this thread
		{
			let mut sb = split(&case.base);
			sb.authority = match sb.authority { Some(_) => None, None => Some("h".to_string()) };
			let sib = recompose(&sb);
			let ok_shape = split(&sib) == sb && !(sb.authority.is_some() && !sb.path.is_empty() && !sb.path.starts_with('/'));
			if ok_shape {
				let scase = Case { fam: case.fam, base: sib.clone(), reference: case.reference.clone() };
				if let Some(sg) = by_fam!(case.fam, resolve_all(&scase))? {
					let mut scx = Ctx::default();
					judge_text(&mut scx, "resolved() (sibling base, right after)", &sib, &case.reference, &sg.0, valid(&sg.0)).map_err(|f| Failure::new(format!("after-sibling:{}", f.sig), f.msg))?;
					for t in scx.tolerated {
						cx.tolerated.push(t);
					}
					if let Some(again) = by_fam!(case.fam, resolve_all(case))? {
						ensure!(again.0 == got.0, "depends-on-previous-call", "resolving {:?} against {:?} gives {:?}, but {:?} after resolving against the sibling base {:?} in between", case.reference, case.base, got.0, again.0, sib);
					}
					cx.obs(2);
					cx.class("sibling-base");
				}
			}
		}
		// base and reference being views of ONE buffer (same start address): the base against its own valid
		// prefixes taken as references and as bases, and against itself as one object
		{
			let valid = |p: &str| match case.fam { Fam::Uri => iref::Uri::new(p).is_ok(), Fam::Iri => iref::Iri::new(p).is_ok() };
			let whole = case.base.as_str();
			let mut views: Vec<&str> = gen::valid_prefix_cuts(whole, 3, valid).into_iter().map(|k| &whole[..k]).collect();
			views.push(whole);
			for v in views {
				for (bs, rf) in [(whole, v), (v, whole)] {
					if let Some(got) = by_fam!(case.fam, resolved_in_place(bs, rf))? {
						let mut scx = Ctx::default();
						judge_text(&mut scx, "resolved() (base and reference are views of one buffer)", bs, rf, &got, valid(&got)).map_err(|f| Failure::new(format!("aliased:{}", f.sig), f.msg))?;
						for t in scx.tolerated {
							cx.tolerated.push(t);
						}
						cx.obs(1);
					}
				}
				cx.class("aliased-views");
			}
		}
		cx.class("judged");
		let b = split(&case.base);
		let r = split(&case.reference);
		let br = branch(&r);
		let (_, rs) = segs(&r.path);
		let dotfree = !rs.iter().any(|s| s == "." || s == "..");
		cx.nt_if(!(r.scheme.is_some() && dotfree));
		cx.class(match br {
			"scheme" => "branch:scheme",
			"authority" => "branch:authority",
			"empty-path" => "branch:empty-path",
			"absolute-path" => "branch:absolute-path",
			_ => "branch:relative-path",
		});
		let base_shape = match (b.authority.is_some(), b.path.is_empty(), b.path.starts_with('/')) {
			(true, true, _) => "base:authority+empty-path",
			(true, false, _) => "base:authority+path",
			(false, true, _) => "base:no-authority+empty-path",
			(false, false, true) => "base:no-authority+absolute",
			(false, false, false) => "base:no-authority+rootless",
		};
		cx.class(base_shape);
		if br == "relative-path" {
			cx.class(match base_shape {
				"base:authority+empty-path" => "merge:authority+empty-path",
				"base:authority+path" => "merge:authority+path",
				"base:no-authority+empty-path" => "merge:no-authority+empty-path",
				"base:no-authority+absolute" => "merge:no-authority+absolute",
				_ => "merge:no-authority+rootless",
			});
			let merged = merge(&b, &r.path);
			let (mabs, ms) = segs(&merged);
			let n = norm::n(mabs, &ms);
			cx.class_if(n.first().map(|s| s == "..").unwrap_or(false), "merge:dotdot-kept (Errata 4547)");
			cx.class_if(norm::open(&ms), "merge:final-dot-segment");
			cx.class_if(n.first().map(|s| s.is_empty()).unwrap_or(false), "merge:leading-empty");
		} else if br != "empty-path" {
			cx.class_if(norm::open(&rs), "non-merge:final-dot-segment");
			let n = norm::n(r.path.starts_with('/'), &rs);
			cx.class_if(n.first().map(|s| s.is_empty()).unwrap_or(false) && r.authority.is_none() && (br != "scheme" ) && b.authority.is_none(), "non-merge:leading-empty-no-authority");
		}
		Ok(())
	}

	fn enumerate(_tier: Tier, shard: usize, nshards: usize, f: &mut dyn FnMut(Case, bool) -> bool) -> Vec<&'static str> {
		// scheme, authority and first-segment LENGTHS: every length 0..=600, every 97th up to 9 000 and the usual limits up to 70 000
		let mut lens = gen::sweep_lengths(600, 9_000);
		lens.extend([16_383, 16_384, 16_385, 32_767, 32_768, 32_769, 65_533, 65_534, 65_535, 65_536, 65_537, 70_000]);
		for (i, n) in lens.into_iter().enumerate() {
			if i % nshards != shard {
				continue;
			}
			let x = gen::filler(n);
			for (k, (base, reference)) in [
				(format!("s{x}://h//b/c"), "g".to_string()),
				(format!("s{x}://h/a/b"), "/a/..//b".to_string()),
				(format!("s{x}:/a/b"), "..//c".to_string()),
				("s://h/a/b".to_string(), format!("t{x}://g//b/../c")),
				(format!("s://{x}@h{x}:1//b/c"), "./g/..".to_string()),
				("s:/a/b".to_string(), format!("{x}/../..//c:d")),
				(format!("tag:./{x}/file"), "g".to_string()),
				("tag:a".to_string(), format!("./{x}")),
				(format!("s://h/./{x}"), format!("./{x}/.")),
				(format!("s:{x}/b"), format!("./_{x}:c/../..")),
			].into_iter().enumerate() {
				let fam = if (i + k) % 2 == 0 { Fam::Uri } else { Fam::Iri };
				if !f(Case { fam, base, reference }, true) {
					return vec![];
				}
			}
		}
		// deep dot-segment stacks: k leading '..' (kept against a rootless base, dropped at a root) or k plain
		// segments, on both sides of the 16-entry inline stack and its doublings, followed by short tails with '..'
		{
			let mut gi = 0usize;
			for k in (0..=40usize).chain([63, 64, 65, 127, 128, 129, 255, 256, 257]) {
				for tail in ["a/../b", "a/..", "a/b/../..", "a/./../b/..", "..", "a/../../b", "./a/..", "a"] {
					for (base, ups) in [("s:x", true), ("s:", true), ("s:x/y", true), ("s:/x", true), ("s://h/x/y", true), ("s:x", false), ("s://h", false), ("s:/", false)] {
						gi += 1;
						if gi % nshards != shard {
							continue;
						}
						let lead: String = if ups { "../".repeat(k) } else { (0..k).map(|j| format!("s{j}/")).collect() };
						let fam = if gi % 2 == 0 { Fam::Uri } else { Fam::Iri };
						if !f(Case { fam, base: base.to_string(), reference: format!("{lead}{tail}") }, true) {
							return vec![];
						}
						// the same deep path behind the reference's OWN scheme (5.2.2 first branch), and as the BASE's path
						if !f(Case { fam, base: base.to_string(), reference: format!("t:{lead}{tail}") }, true) {
							return vec![];
						}
						if !f(Case { fam, base: format!("s:{lead}{tail}/d"), reference: if ups { "e".to_string() } else { "../e".to_string() } }, true) {
							return vec![];
						}
					}
				}
			}
		}
		// bases of every shape x every reference path of <= 3 segments over {a, ., .., ''} in every branch
		let mut bases: Vec<String> = vec![];
		for au in ["", "//h", "//"] {
			for pa in ["", "/", "/a", "/a/", "/a/b", "/a/b/", "/a/../b", "/a/./b/", "//a", "/a//b", "/..", "a", "a/", "a/b", "../a", "a:b/c"] {
				if !au.is_empty() && !pa.is_empty() && !pa.starts_with('/') {
					continue;
				}
				if au.is_empty() && pa.starts_with("//") {
					continue;
				}
				for q in ["", "?q"] {
					bases.push(format!("s:{au}{pa}{q}"));
				}
			}
		}
		let alphabet = ["a", ".", "..", ""];
		let mut paths: Vec<String> = vec![String::new()];
		for len in 1..=3usize {
			for m0 in 0..4usize.pow(len as u32) {
				let mut m = m0;
				let mut v = vec![];
				for _ in 0..len {
					v.push(alphabet[m % 4]);
					m /= 4;
				}
				paths.push(v.join("/"));
				paths.push(format!("/{}", v.join("/")));
			}
		}
		paths.sort();
		paths.dedup();
		let mut refs: Vec<String> = vec![];
		for p in &paths {
			for tail in ["", "?y", "#z"] {
				// relative / absolute path branches (a relative path must not start with an empty segment or look like a scheme)
				if !p.starts_with("//") {
					refs.push(format!("{p}{tail}"));
				}
				// authority and scheme branches
				if p.is_empty() || p.starts_with('/') {
					refs.push(format!("//g{p}{tail}"));
				}
				if !p.starts_with("//") {
					refs.push(format!("t:{p}{tail}"));
				}
			}
		}
		// deep references WITHOUT dot segments (bulk-append shortcuts) against every base shape
		for k in [15usize, 16, 17, 31, 32, 33, 40, 64, 100, 300] {
			refs.push((0..k).map(|j| format!("s{j}")).collect::<Vec<_>>().join("/"));
			refs.push(format!("{}/", (0..k).map(|j| format!("s{j}")).collect::<Vec<_>>().join("/")));
			refs.push(format!("/{}?y", (0..k).map(|j| format!("s{j}")).collect::<Vec<_>>().join("/")));
		}
		let mut i = 0usize;
		for b in &bases {
			for r in &refs {
				i += 1;
				if i % nshards != shard {
					continue;
				}
				let fam = if i % 2 == 0 { Fam::Uri } else { Fam::Iri };
				if !f(Case { fam, base: b.clone(), reference: r.clone() }, true) {
					return vec![];
				}
			}
		}
		vec!["bases (3 authority forms x 16 path forms x 2 queries) x references (all paths of <= 3 segments over {a, ., .., ''}, relative and absolute, in the path / authority / scheme branches, with query or fragment)"]
	}

	fn floors(_tier: Tier) -> Vec<(&'static str, u64)> {
		vec![
			("judged", 200_000),
			("branch:scheme", 5_000),
			("branch:authority", 5_000),
			("branch:empty-path", 5_000),
			("branch:absolute-path", 30_000),
			("branch:relative-path", 60_000),
			("merge:authority+empty-path", 2_000),
			("merge:authority+path", 10_000),
			("merge:no-authority+empty-path", 2_000),
			("merge:no-authority+absolute", 5_000),
			("merge:no-authority+rootless", 5_000),
			("merge:dotdot-kept (Errata 4547)", 1_000),
			("merge:final-dot-segment", 10_000),
			("merge:leading-empty", 1_000),
			("non-merge:final-dot-segment", 5_000),
			("both-families", 50_000),
		]
	}
}
