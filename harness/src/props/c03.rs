//! C03 — authority accessors return user info, host and port per RFC 3986 3.2.

use proptest::prelude::*;
use serde::{Deserialize, Serialize};

use crate::engine::{Ctx, Failure, Prop, Tier};
use crate::gen::{self, Fam, Opt};
use crate::oracle::split::{recompose_authority, split_authority, AuthParts};
use crate::{both_families, by_fam, ensure};

#[derive(Debug, Clone, Copy, Hash, PartialEq, Eq, Serialize, Deserialize)]
pub enum Route {
	Standalone,
	InFull,
	InReference,
}

#[derive(Debug, Clone, Hash, Serialize, Deserialize)]
pub struct Case {
	pub fam: Fam,
	pub authority: String,
	pub route: Route,
	/// an authority of the same length that is parsed and read, at the same address, just before
	#[serde(default)]
	pub before: Option<String>,
}

pub struct C03;

both_families! {
	use crate::props::api::opt_s;

	fn judge(view: &str, a: &Authority, text: &str, exp: &AuthParts) -> Result<(), Failure> {
		ensure!(a.as_str() == text, "authority-text", "{view}: authority text {:?}, expected {:?}", a.as_str(), text);
		let ui = opt_s(a.user_info());
		let h = a.host().as_str().to_string();
		let p = opt_s(a.port());
		ensure!(ui == exp.userinfo, "user_info()", "{view}: authority {:?}: user_info() = {:?}, RFC 3986 3.2 gives {:?}", text, ui, exp.userinfo);
		ensure!(h == exp.host, "host()", "{view}: authority {:?}: host() = {:?}, RFC 3986 3.2 gives {:?}", text, h, exp.host);
		ensure!(p == exp.port, "port()", "{view}: authority {:?}: port() = {:?}, RFC 3986 3.2 gives {:?}", text, p, exp.port);
		let pp = a.parts();
		let got = AuthParts { userinfo: opt_s(pp.user_info), host: pp.host.as_str().to_string(), port: opt_s(pp.port) };
		ensure!(got.userinfo == exp.userinfo, "parts().user_info", "{view}: authority {:?}: parts().user_info = {:?}, expected {:?}", text, got.userinfo, exp.userinfo);
		ensure!(got.host == exp.host, "parts().host", "{view}: authority {:?}: parts().host = {:?}, expected {:?}", text, got.host, exp.host);
		ensure!(got.port == exp.port, "parts().port", "{view}: authority {:?}: parts().port = {:?}, expected {:?}", text, got.port, exp.port);
		if let Some(u) = &ui {
			ensure!(UserInfo::new(u.as_str()).is_ok(), "part-invalid:userinfo", "{view}: authority {:?}: returned user info {:?} is not a valid UserInfo", text, u);
		}
		ensure!(Host::new(h.as_str()).is_ok(), "part-invalid:host", "{view}: authority {:?}: returned host {:?} is not a valid Host", text, h);
		if let Some(x) = &p {
			ensure!(Port::new(x.as_str()).is_ok(), "part-invalid:port", "{view}: authority {:?}: returned port {:?} is not a valid Port", text, x);
		}
		let re = recompose_authority(&AuthParts { userinfo: ui, host: h, port: p });
		ensure!(re == text, "reassembly", "{view}: authority {:?}: [userinfo@]host[:port] reassembles to {:?}", text, re);
		Ok(())
	}

	pub fn check(case: &Case, exp: &AuthParts, cx: &mut Ctx) -> Result<bool, Failure> {
		let text = case.authority.as_str();
		// validity gate: only valid authorities are in the domain (an arbitrary text embedded in
		// a URI would simply parse as something else)
		if Authority::new(text).is_err() { return Ok(false) }
		if let Some(b) = &case.before {
			// the predecessor in the re-used buffer: parse it and read every part (judged too)
			if Authority::new(b.as_str()).is_err() { return Ok(false) }
			let bexp = split_authority(b);
			gen::with_arena(b, |s| match Authority::new(s) {
				Ok(a) => judge("predecessor in the re-used buffer", a, b, &bexp),
				Err(_) => Ok(()),
			})?;
			// ... and IMMEDIATELY afterwards (nothing else read in between) the authority itself, at that address
			gen::with_arena(text, |s| match Authority::new(s) {
				Ok(a) => judge("right after another authority of the same length in the same buffer", a, text, exp).map_err(|f| Failure::new(format!("reused-buffer:{}", f.sig), format!("(previous content of the buffer: {:?}) {}", b, f.msg))),
				Err(_) => Err(Failure::new("reused-buffer:rejects", format!("Authority::new rejects {:?} when it lives in a re-used buffer", text))),
			})?;
		}
		match case.route {
			Route::Standalone => {
				let a = match Authority::new(text) { Ok(a) => a, Err(_) => return Ok(false) };
				judge("stand-alone borrowed", a, text, exp)?;
				let ab = AuthorityBuf::new(text.into()).map_err(|_| Failure::new("owned-rejects", format!("AuthorityBuf rejects {:?}", text)))?;
				judge("stand-alone owned", &ab, text, exp)?;
				// the same text at the address where the previous authority of this length was (re-used buffer),
				// and at an odd offset inside a larger buffer
				gen::with_arena(text, |s| match Authority::new(s) {
					Ok(a) => judge("stand-alone, in a re-used buffer", a, text, exp).map_err(|f| Failure::new(format!("reused-buffer:{}", f.sig), f.msg)),
					Err(_) => Err(Failure::new("reused-buffer:rejects", format!("Authority::new rejects {:?} when it lives in a re-used buffer", text))),
				})?;
				gen::with_misaligned(text, |s, k| match Authority::new(s) {
					Ok(a) => judge("stand-alone, misaligned", a, text, exp).map_err(|f| Failure::new(format!("misaligned:{}", f.sig), format!("(at byte offset {k} of a larger buffer) {}", f.msg))),
					Err(_) => Err(Failure::new("misaligned:rejects", format!("Authority::new rejects {:?} at byte offset {k} of a larger buffer", text))),
				})?;
				cx.obs(44);
			}
			Route::InFull => {
				// every combination of a scheme (well-known ones included) and of what follows the authority
				for scheme in ["s", "http", "https", "file", "HTTP"] {
					for tail in ["/p?q:@#f:@", "", "/", "#/f/g", "?q/r:@", "#", "?", "/p#@h:1"] {
						let t = format!("{scheme}://{text}{tail}");
						let r = match Ri::new(t.as_str()) { Ok(r) => r, Err(_) => return Ok(false) };
						let a = r.authority().ok_or_else(|| Failure::new("authority-missing", format!("{:?}: authority() is None", t)))?;
						judge(&format!("inside {:?}", t), a, text, exp)?;
						let a2 = r.parts().authority.ok_or_else(|| Failure::new("authority-missing", format!("{:?}: parts().authority is None", t)))?;
						judge(&format!("inside {:?} (parts)", t), a2, text, exp)?;
						cx.obs(22);
					}
				}
			}
			Route::InReference => {
				for tail in ["", "/p", "#/f", "?q/@:", "#"] {
					let t = format!("//{text}{tail}");
					let r = match RiRef::new(t.as_str()) { Ok(r) => r, Err(_) => return Ok(false) };
					let a = r.authority().ok_or_else(|| Failure::new("authority-missing", format!("{:?}: authority() is None", t)))?;
					judge(&format!("inside the reference {:?}", t), a, text, exp)?;
					let ob = RiRefBuf::new(t.as_str().into()).map_err(|_| Failure::new("owned-rejects", format!("owned reference rejects {:?}", t)))?;
					let a = ob.authority().ok_or_else(|| Failure::new("authority-missing", format!("{:?}: owned authority() is None", t)))?;
					judge(&format!("inside the owned reference {:?}", t), a, text, exp)?;
					cx.obs(22);
				}
			}
		}
		Ok(true)
	}
}

fn pool_product(fam: Fam) -> Vec<String> {
	// the same pools the random generator draws from, enumerated completely
	let ui: Vec<Option<&str>> = vec![None, Some(""), Some("u"), Some("u:p"), Some(":"), Some("a:b:c"), Some("u:"), Some(":p"), Some("%41"), Some("%3A%40"), Some("a;b=c"), Some("user:12345"), Some("u:65535"), Some(":8080"), Some("12345"), Some("u:1234"), Some("a:b:c:d:e:f:g:h:i:j")];
	let ui_iri: Vec<Option<&str>> = vec![Some("\u{e9}"), Some("\u{e9}:\u{8a9e}")];
	let mut hosts: Vec<&str> = vec!["", "h", "example.org", "127.0.0.1", "999.1.1.1", "1.2.3", "%41", "%3A", "h~!$&'()*+,;=", "0", "12345", "65535"];
	hosts.extend(gen::IPV6_POOL.iter());
	let hosts_iri: Vec<&str> = vec!["\u{e9}", "r\u{e9}sum\u{e9}.example"];
	let ports: Vec<Option<&str>> = vec![None, Some(""), Some("0"), Some("80"), Some("00080"), Some("123456789012345678901234567890")];
	let mut out = vec![];
	let mut uis = ui.clone();
	let mut hs = hosts.clone();
	if fam == Fam::Iri {
		uis.extend(ui_iri);
		hs.extend(hosts_iri);
	}
	for u in &uis {
		for h in &hs {
			for p in &ports {
				out.push(recompose_authority(&AuthParts {
					userinfo: u.map(|s| s.to_string()),
					host: h.to_string(),
					port: p.map(|s| s.to_string()),
				}));
			}
		}
	}
	out
}

impl Prop for C03 {
	type Case = Case;
	const ID: &'static str = "C03";

	fn rule() -> String {
		"cases = (family, authority text, route in {stand-alone Authority::new + AuthorityBuf + the same text in a re-used buffer (same address as the previous authority of that length) + at an odd offset of a larger buffer; inside '<scheme>://A<tail>' for 5 schemes (s, http, https, file, HTTP) x 8 tails (path/query/fragment present or not, '/' '@' ':' inside query and fragment); inside '//A<tail>' borrowed+owned for 5 tails}). Enumerated completely: the product user-info pool (absent, empty, plain, with ':', several ':', pct, non-ASCII) x host pool (empty, reg-names, IPv4, IPv4-like reg-name, 18 IP-literal shapes, pct, non-ASCII) x port pool (absent, empty, digits, leading zeros, 30 digits), both families, 3 routes. Random: same pools plus raw tokens assembled from the legal character classes. Oracle: RFC 3986 3.2 splitter (user info = text before '@'; host = '[...]' or text up to ':'; port = rest after ':'). Non-trivial: at least two of the three parts present, or an IP-literal host.".into()
	}

	fn cases(tier: Tier) -> u64 {
		tier.pick(200_000, 5_000_000)
	}

	fn strategy(_tier: Tier) -> BoxedStrategy<Case> {
		(gen::fam(), prop_oneof![Just(Route::Standalone), Just(Route::InFull), Just(Route::InReference)])
			.prop_flat_map(|(f, route)| {
				let o = Opt::new(f).with_nonutf8(true);
				prop_oneof![
					400 => gen::authority(o),
					// components crossing 255 / 4 KiB / 64 KiB (narrow offset types, block scanners)
					1 => (gen::auth_parts(o), proptest::sample::select(vec![250usize, 256, 4090, 4096, 65530, 65536, 65540, 70000]), 0u8..3).prop_map(|(mut p, n, which)| {
						match which {
							0 => p.userinfo = Some(format!("{}{}", p.userinfo.unwrap_or_default(), "u".repeat(n))),
							1 => { if !p.host.starts_with('[') { p.host = format!("{}{}", p.host, "h".repeat(n)) } else { p.userinfo = Some("w".repeat(n)) } }
							_ => p.port = Some(format!("{}{}", p.port.unwrap_or_default(), "7".repeat(n))),
						}
						recompose_authority(&p)
					}),
				]
				.prop_map(move |authority| Case { fam: f, authority, route, before: None })
			})
			.boxed()
	}

	fn check(case: &Case, cx: &mut Ctx) -> Result<(), Failure> {
		if case.fam == Fam::Uri && !case.authority.is_ascii() {
			cx.class("skipped-nonascii-uri");
			return Ok(());
		}
		let exp = split_authority(&case.authority);
		let judged = by_fam!(case.fam, check(case, &exp, cx))?;
		if !judged {
			cx.class("rejected-by-library");
			return Ok(());
		}
		cx.class("judged");
		let n = exp.userinfo.is_some() as u32 + 1 + exp.port.is_some() as u32;
		let ipl = exp.host.starts_with('[');
		cx.nt_if(n >= 2 || ipl);
		cx.class_if(ipl, "ip-literal");
		cx.class_if(ipl && exp.port.is_some(), "ip-literal+port");
		cx.class_if(ipl && exp.userinfo.is_some(), "ip-literal+userinfo");
		cx.class_if(exp.userinfo.as_deref().map(|u| u.contains(':')).unwrap_or(false), "colon-in-userinfo");
		cx.class_if(exp.userinfo.as_deref() == Some(""), "userinfo-empty");
		cx.class_if(exp.port.as_deref() == Some(""), "port-empty");
		cx.class_if(exp.host.is_empty(), "host-empty");
		cx.class_if(exp.userinfo.is_some() && exp.port.is_some(), "userinfo+port");
		cx.class_if(!case.authority.is_ascii(), "non-ascii");
		Ok(())
	}

	fn enumerate(_tier: Tier, shard: usize, nshards: usize, f: &mut dyn FnMut(Case, bool) -> bool) -> Vec<&'static str> {
		let mut i = 0;
		for fam in [Fam::Uri, Fam::Iri] {
			for a in pool_product(fam) {
				for route in [Route::Standalone, Route::InFull, Route::InReference] {
					i += 1;
					if i % nshards != shard {
						continue;
					}
					if !f(Case { fam, authority: a.clone(), route, before: None }, true) {
						return vec![];
					}
				}
			}
		}
		// the IPvFuture family: version of every length 1..=64 (letters only / digits only / mixed) x address parts
		// with and without ':' x user info x port
		{
			let mut k = 0usize;
			for n in 1..=64usize {
				for version in ["A".repeat(n), "9".repeat(n), "aB3".repeat(n)[..n].to_string()] {
					for addr in ["x", "x:y", ":", "a:b:c", "~:!$&'()*+,;=", "1.2.3.4", "zzzzzzzzzzzzzzzzzzzzzzzzzzzzzzzzzzzzzzzzzzzzzzzzzzzzzzzzzz:q"] {
						for ui in [None, Some("u"), Some("u:12345")] {
							for port in [None, Some(""), Some("80")] {
								k += 1;
								if k % nshards != shard {
									continue;
								}
								let a = recompose_authority(&AuthParts { userinfo: ui.map(|s| s.to_string()), host: format!("[v{version}.{addr}]"), port: port.map(|s| s.to_string()) });
								let route = [Route::Standalone, Route::InFull, Route::InReference][k % 3];
								if !f(Case { fam: if k % 2 == 0 { Fam::Uri } else { Fam::Iri }, authority: a, route, before: None }, true) {
									return vec![];
								}
							}
						}
					}
				}
			}
		}
		// equal-length authorities (>= 48 bytes) that differ only in WHERE their delimiters are, every ordered
		// pair read one after the other from the same buffer
		let mut pairs = 0usize;
		for len in [48usize, 49, 64, 100, 300] {
			let mut variants: Vec<String> = vec![];
			for ui in [None, Some(""), Some("u"), Some("deploy:s3cr3t"), Some(":"), Some("a:b:c")] {
				for port in [None, Some(""), Some("8443"), Some("1")] {
					for host_kind in 0..3 {
						let fixed = ui.map(|u: &str| u.len() + 1).unwrap_or(0) + port.map(|p: &str| p.len() + 1).unwrap_or(0);
						let room = match len.checked_sub(fixed) { Some(r) => r, None => continue };
						let host = match host_kind {
							0 => "a".repeat(room),
							1 if room >= 8 => format!("[v1.{}:b]", "a".repeat(room - 8)),
							2 if room >= 12 => format!("{}.{}", "a".repeat(room - 6), "b:c".replace(':', "-")) + "x",
							_ => continue,
						};
						if host.len() != room { continue }
						variants.push(recompose_authority(&AuthParts { userinfo: ui.map(|s| s.to_string()), host, port: port.map(|s| s.to_string()) }));
					}
				}
			}
			for (ai, a) in variants.iter().enumerate() {
				for (bi, b) in variants.iter().enumerate() {
					if ai == bi { continue }
					pairs += 1;
					if pairs % nshards != shard { continue }
					let fam = if pairs % 2 == 0 { Fam::Uri } else { Fam::Iri };
					if !f(Case { fam, authority: b.clone(), route: Route::Standalone, before: Some(a.clone()) }, true) {
						return vec![];
					}
				}
			}
		}
		vec!["IPvFuture hosts: version of every length 1..=64 (3 alphabets) x 7 address parts x 3 user infos x 3 ports", "full product userinfo pool x host pool x port pool, both families, three routes", "every ordered pair of equal-length authorities (48, 49, 64, 100, 300 bytes; 6 user infos x 4 ports x 3 host shapes) read one after the other from the same buffer"]
	}

	fn floors(_tier: Tier) -> Vec<(&'static str, u64)> {
		vec![
			("judged", 100_000),
			("ip-literal+port", 2_000),
			("ip-literal+userinfo", 2_000),
			("colon-in-userinfo", 5_000),
			("userinfo-empty", 1_000),
			("port-empty", 1_000),
			("host-empty", 1_000),
			("userinfo+port", 5_000),
			("non-ascii", 5_000),
		]
	}
}
