//! Construction routes of the 20 validated types (used by C01 and C14).

use std::borrow::Cow;
use std::str::FromStr;

use crate::engine::Failure;
use crate::ensure;
use crate::oracle::abnf::Ty;

fn same(a: &[u8], b: &[u8]) -> bool {
	a.as_ptr() == b.as_ptr() && a.len() == b.len()
}

fn show(b: &[u8]) -> String {
	match std::str::from_utf8(b) {
		Ok(s) => format!("{:?}", s),
		Err(_) => format!("bytes {:02x?}", b),
	}
}

macro_rules! acc {
	($route:expr, $ty:expr, $exp:expr, $input:expr) => {
		ensure!(
			$exp,
			format!("accepts-underivable:{}", $route),
			"{} via {} ACCEPTS {} which is not derivable from the RFC production `{}`",
			$ty.name(),
			$route,
			show($input),
			$ty.rule()
		)
	};
}
macro_rules! rej {
	($route:expr, $ty:expr, $exp:expr, $input:expr) => {
		ensure!(
			!$exp,
			format!("rejects-derivable:{}", $route),
			"{} via {} REJECTS {} which is derivable from the RFC production `{}`",
			$ty.name(),
			$route,
			show($input),
			$ty.rule()
		)
	};
}

macro_rules! uri_routes {
	($name:ident, $ty:expr, $T:ty, $TBuf:ty, $Inv:ident, $Var:ident) => {
		pub fn $name(input: &[u8], exp: bool, all: bool) -> Result<u64, Failure> {
			use iref::uri::$Inv;
			let ty: Ty = $ty;
			let mut n = 3u64;
			match <$T>::new(input) {
				Ok(v) => {
					acc!("new(&[u8])", ty, exp, input);
					ensure!(same(v.as_bytes(), input), "text-not-kept:new", "{} new: value does not occupy the input ({} vs {})", ty.name(), show(v.as_bytes()), show(input));
				}
				Err($Inv(p)) => {
					rej!("new(&[u8])", ty, exp, input);
					ensure!(same(p, input), "error-payload:new", "{} new: error payload is not the input", ty.name());
				}
			}
			let v = <$T>::validate(input.iter().copied());
			if v { acc!("validate", ty, exp, input) } else { rej!("validate", ty, exp, input) }
			match <$TBuf>::new(input.to_vec()) {
				Ok(v) => {
					acc!("Buf::new(Vec<u8>)", ty, exp, input);
					ensure!(v.as_bytes() == input, "text-not-kept:buf-new", "{} Buf::new: text {} differs from input {}", ty.name(), show(v.as_bytes()), show(input));
				}
				Err($Inv(p)) => {
					rej!("Buf::new(Vec<u8>)", ty, exp, input);
					ensure!(p == input, "error-payload:buf-new", "{} Buf::new: error payload {} is not the input {}", ty.name(), show(&p), show(input));
				}
			}
			if all {
				n += 2;
				// widening into the family-wide error type must keep the variant and the untouched input
				if let Err(e) = <$T>::new(input) {
					n += 1;
					match iref::uri::UriError::<Cow<[u8]>>::from(e) {
						iref::uri::UriError::$Var($Inv(Cow::Borrowed(p))) => ensure!(same(p, input), "error-payload:UriError-borrowed", "{} UriError::from(Invalid(&[u8])): payload is not the input", ty.name()),
						other => ensure!(false, "error-payload:UriError-variant", "{} UriError::from(Invalid(&[u8])) gives {:?}", ty.name(), other),
					}
				}
				if let Err(e) = <$TBuf>::new(input.to_vec()) {
					n += 1;
					match iref::uri::UriError::<Cow<[u8]>>::from(e) {
						iref::uri::UriError::$Var($Inv(Cow::Owned(p))) => ensure!(p == input, "error-payload:UriError-owned", "{} UriError::from(Invalid(Vec<u8>)): payload {} is not the input {}", ty.name(), show(&p), show(input)),
						other => ensure!(false, "error-payload:UriError-variant", "{} UriError::from(Invalid(Vec<u8>)) gives {:?}", ty.name(), other),
					}
				}
				match <&$T>::try_from(input) {
					Ok(v) => {
						acc!("TryFrom<&[u8]>", ty, exp, input);
						ensure!(same(v.as_bytes(), input), "text-not-kept:try_from", "{} TryFrom<&[u8]>: value does not occupy the input", ty.name());
					}
					Err($Inv(p)) => {
						rej!("TryFrom<&[u8]>", ty, exp, input);
						ensure!(same(p, input), "error-payload:try_from", "{} TryFrom<&[u8]>: error payload is not the input", ty.name());
					}
				}
				match <$TBuf>::try_from(input.to_vec()) {
					Ok(v) => {
						acc!("Buf::TryFrom<Vec<u8>>", ty, exp, input);
						ensure!(v.as_bytes() == input, "text-not-kept:buf-try_from", "{} Buf::TryFrom<Vec<u8>>: text differs", ty.name());
					}
					Err($Inv(p)) => {
						rej!("Buf::TryFrom<Vec<u8>>", ty, exp, input);
						ensure!(p == input, "error-payload:buf-try_from", "{} Buf::TryFrom<Vec<u8>>: payload differs", ty.name());
					}
				}
				if let Ok(s) = std::str::from_utf8(input) {
					n += 6;
					if let Err(e) = <$T>::new(s) {
						match iref::uri::UriError::<Cow<str>>::from(e) {
							iref::uri::UriError::$Var($Inv(Cow::Borrowed(p))) => ensure!(same(p.as_bytes(), input), "error-payload:UriError-borrowed-str", "{} UriError::from(Invalid(&str)): payload is not the input", ty.name()),
							other => ensure!(false, "error-payload:UriError-variant", "{} UriError::from(Invalid(&str)) gives {:?}", ty.name(), other),
						}
					}
					if let Err(e) = <$TBuf>::try_from(s.to_string()) {
						match iref::uri::UriError::<Cow<str>>::from(e) {
							iref::uri::UriError::$Var($Inv(Cow::Owned(p))) => ensure!(p.as_bytes() == input, "error-payload:UriError-owned-str", "{} UriError::from(Invalid(String)): payload {} is not the input {}", ty.name(), show(p.as_bytes()), show(input)),
							other => ensure!(false, "error-payload:UriError-variant", "{} UriError::from(Invalid(String)) gives {:?}", ty.name(), other),
						}
					}
					match <$T>::new(s) {
						Ok(v) => {
							acc!("new(&str)", ty, exp, input);
							ensure!(same(v.as_bytes(), input), "text-not-kept:new-str", "{} new(&str): value does not occupy the input", ty.name());
						}
						Err($Inv(p)) => {
							rej!("new(&str)", ty, exp, input);
							ensure!(same(p.as_bytes(), input), "error-payload:new-str", "{} new(&str): error payload is not the input", ty.name());
						}
					}
					match <&$T>::try_from(s) {
						Ok(v) => {
							acc!("TryFrom<&str>", ty, exp, input);
							ensure!(same(v.as_bytes(), input), "text-not-kept:try_from-str", "{} TryFrom<&str>: value does not occupy the input", ty.name());
						}
						Err($Inv(p)) => {
							rej!("TryFrom<&str>", ty, exp, input);
							ensure!(same(p.as_bytes(), input), "error-payload:try_from-str", "{} TryFrom<&str>: error payload is not the input", ty.name());
						}
					}
					match <$TBuf>::try_from(s.to_string()) {
						Ok(v) => {
							acc!("Buf::TryFrom<String>", ty, exp, input);
							ensure!(v.as_bytes() == input, "text-not-kept:buf-try_from-string", "{} Buf::TryFrom<String>: text differs", ty.name());
						}
						Err($Inv(p)) => {
							rej!("Buf::TryFrom<String>", ty, exp, input);
							ensure!(p.as_bytes() == input, "error-payload:buf-try_from-string", "{} Buf::TryFrom<String>: payload differs", ty.name());
						}
					}
					match <$TBuf>::from_str(s) {
						Ok(v) => {
							acc!("FromStr", ty, exp, input);
							ensure!(v.as_bytes() == input, "text-not-kept:from_str", "{} FromStr: text differs", ty.name());
						}
						Err($Inv(p)) => {
							rej!("FromStr", ty, exp, input);
							ensure!(p.as_bytes() == input, "error-payload:from_str", "{} FromStr: payload differs", ty.name());
						}
					}
					let json = serde_json::to_string(s).unwrap();
					match serde_json::from_str::<$TBuf>(&json) {
						Ok(v) => {
							acc!("serde owned", ty, exp, input);
							ensure!(v.as_bytes() == input, "text-not-kept:serde-owned", "{} serde owned: text differs", ty.name());
						}
						Err(_) => rej!("serde owned", ty, exp, input),
					}
					if json.len() == s.len() + 2 {
						match serde_json::from_str::<&$T>(&json) {
							Ok(v) => {
								acc!("serde borrowed", ty, exp, input);
								ensure!(v.as_bytes() == input, "text-not-kept:serde-borrowed", "{} serde borrowed: text differs", ty.name());
							}
							Err(_) => rej!("serde borrowed", ty, exp, input),
						}
					}
				}
			}
			Ok(n)
		}
	};
}

macro_rules! iri_routes {
	($name:ident, $ty:expr, $T:ty, $TBuf:ty, $Inv:ident, $Var:ident) => {
		pub fn $name(s: &str, exp: bool, all: bool) -> Result<u64, Failure> {
			use iref::iri::$Inv;
			let ty: Ty = $ty;
			let input = s.as_bytes();
			let mut n = 3u64;
			match <$T>::new(s) {
				Ok(v) => {
					acc!("new(&str)", ty, exp, input);
					ensure!(same(v.as_bytes(), input), "text-not-kept:new", "{} new: value does not occupy the input", ty.name());
				}
				Err($Inv(p)) => {
					rej!("new(&str)", ty, exp, input);
					ensure!(same(p.as_bytes(), input), "error-payload:new", "{} new: error payload is not the input", ty.name());
				}
			}
			let v = <$T>::validate(s.chars());
			if v { acc!("validate", ty, exp, input) } else { rej!("validate", ty, exp, input) }
			match <$TBuf>::new(s.to_string()) {
				Ok(v) => {
					acc!("Buf::new(String)", ty, exp, input);
					ensure!(v.as_bytes() == input, "text-not-kept:buf-new", "{} Buf::new: text differs", ty.name());
				}
				Err($Inv(p)) => {
					rej!("Buf::new(String)", ty, exp, input);
					ensure!(p.as_bytes() == input, "error-payload:buf-new", "{} Buf::new: payload differs", ty.name());
				}
			}
			if all {
				n += 5;
				if let Err(e) = <$T>::new(s) {
					n += 1;
					match iref::iri::IriError::<Cow<str>>::from(e) {
						iref::iri::IriError::$Var($Inv(Cow::Borrowed(p))) => ensure!(same(p.as_bytes(), input), "error-payload:IriError-borrowed", "{} IriError::from(Invalid(&str)): payload is not the input", ty.name()),
						other => ensure!(false, "error-payload:IriError-variant", "{} IriError::from(Invalid(&str)) gives {:?}", ty.name(), other),
					}
				}
				if let Err(e) = <$TBuf>::new(s.to_string()) {
					n += 1;
					match iref::iri::IriError::<Cow<str>>::from(e) {
						iref::iri::IriError::$Var($Inv(Cow::Owned(p))) => ensure!(p.as_bytes() == input, "error-payload:IriError-owned", "{} IriError::from(Invalid(String)): payload {} is not the input {}", ty.name(), show(p.as_bytes()), show(input)),
						other => ensure!(false, "error-payload:IriError-variant", "{} IriError::from(Invalid(String)) gives {:?}", ty.name(), other),
					}
				}
				match <&$T>::try_from(s) {
					Ok(v) => {
						acc!("TryFrom<&str>", ty, exp, input);
						ensure!(same(v.as_bytes(), input), "text-not-kept:try_from", "{} TryFrom<&str>: value does not occupy the input", ty.name());
					}
					Err($Inv(p)) => {
						rej!("TryFrom<&str>", ty, exp, input);
						ensure!(same(p.as_bytes(), input), "error-payload:try_from", "{} TryFrom<&str>: error payload is not the input", ty.name());
					}
				}
				match <$TBuf>::try_from(s.to_string()) {
					Ok(v) => {
						acc!("Buf::TryFrom<String>", ty, exp, input);
						ensure!(v.as_bytes() == input, "text-not-kept:buf-try_from", "{} Buf::TryFrom<String>: text differs", ty.name());
					}
					Err($Inv(p)) => {
						rej!("Buf::TryFrom<String>", ty, exp, input);
						ensure!(p.as_bytes() == input, "error-payload:buf-try_from", "{} Buf::TryFrom<String>: payload differs", ty.name());
					}
				}
				match <$TBuf>::from_str(s) {
					Ok(v) => {
						acc!("FromStr", ty, exp, input);
						ensure!(v.as_bytes() == input, "text-not-kept:from_str", "{} FromStr: text differs", ty.name());
					}
					Err($Inv(p)) => {
						rej!("FromStr", ty, exp, input);
						ensure!(p.as_bytes() == input, "error-payload:from_str", "{} FromStr: payload differs", ty.name());
					}
				}
				let json = serde_json::to_string(s).unwrap();
				match serde_json::from_str::<$TBuf>(&json) {
					Ok(v) => {
						acc!("serde owned", ty, exp, input);
						ensure!(v.as_bytes() == input, "text-not-kept:serde-owned", "{} serde owned: text differs", ty.name());
					}
					Err(_) => rej!("serde owned", ty, exp, input),
				}
				if json.len() == s.len() + 2 {
					match serde_json::from_str::<&$T>(&json) {
						Ok(v) => {
							acc!("serde borrowed", ty, exp, input);
							ensure!(v.as_bytes() == input, "text-not-kept:serde-borrowed", "{} serde borrowed: text differs", ty.name());
						}
						Err(_) => rej!("serde borrowed", ty, exp, input),
					}
				}
			}
			Ok(n)
		}
	};
}

uri_routes!(uri, Ty::Uri, iref::Uri, iref::UriBuf, InvalidUri, Uri);
uri_routes!(uri_ref, Ty::UriRef, iref::UriRef, iref::UriRefBuf, InvalidUriRef, Reference);
uri_routes!(u_scheme, Ty::UScheme, iref::uri::Scheme, iref::uri::SchemeBuf, InvalidScheme, Scheme);
uri_routes!(u_authority, Ty::UAuthority, iref::uri::Authority, iref::uri::AuthorityBuf, InvalidAuthority, Authority);
uri_routes!(u_userinfo, Ty::UUserInfo, iref::uri::UserInfo, iref::uri::UserInfoBuf, InvalidUserInfo, UserInfo);
uri_routes!(u_host, Ty::UHost, iref::uri::Host, iref::uri::HostBuf, InvalidHost, Host);
uri_routes!(u_port, Ty::UPort, iref::uri::Port, iref::uri::PortBuf, InvalidPort, Port);
uri_routes!(u_path, Ty::UPath, iref::uri::Path, iref::uri::PathBuf, InvalidPath, Path);
uri_routes!(u_segment, Ty::USegment, iref::uri::Segment, iref::uri::SegmentBuf, InvalidSegment, PathSegment);
uri_routes!(u_query, Ty::UQuery, iref::uri::Query, iref::uri::QueryBuf, InvalidQuery, Query);
uri_routes!(u_fragment, Ty::UFragment, iref::uri::Fragment, iref::uri::FragmentBuf, InvalidFragment, Fragment);

iri_routes!(iri, Ty::Iri, iref::Iri, iref::IriBuf, InvalidIri, Iri);
iri_routes!(iri_ref, Ty::IriRef, iref::IriRef, iref::IriRefBuf, InvalidIriRef, Reference);
iri_routes!(i_authority, Ty::IAuthority, iref::iri::Authority, iref::iri::AuthorityBuf, InvalidAuthority, Authority);
iri_routes!(i_userinfo, Ty::IUserInfo, iref::iri::UserInfo, iref::iri::UserInfoBuf, InvalidUserInfo, UserInfo);
iri_routes!(i_host, Ty::IHost, iref::iri::Host, iref::iri::HostBuf, InvalidHost, Host);
iri_routes!(i_path, Ty::IPath, iref::iri::Path, iref::iri::PathBuf, InvalidPath, Path);
iri_routes!(i_segment, Ty::ISegment, iref::iri::Segment, iref::iri::SegmentBuf, InvalidSegment, PathSegment);
iri_routes!(i_query, Ty::IQuery, iref::iri::Query, iref::iri::QueryBuf, InvalidQuery, Query);
iri_routes!(i_fragment, Ty::IFragment, iref::iri::Fragment, iref::iri::FragmentBuf, InvalidFragment, Fragment);

/// from-bytes constructors of the IRI family (`IriBuf::from_vec`, `IriRefBuf::from_vec`).
pub fn iri_from_vec(ty: Ty, input: &[u8], exp: bool) -> Result<u64, Failure> {
	macro_rules! fv {
		($TBuf:ty, $Inv:ident) => {{
			use iref::iri::$Inv;
			match <$TBuf>::from_vec(input.to_vec()) {
				Ok(v) => {
					acc!("from_vec", ty, exp, input);
					ensure!(v.as_bytes() == input, "text-not-kept:from_vec", "{} from_vec: text differs", ty.name());
				}
				Err($Inv(p)) => {
					rej!("from_vec", ty, exp, input);
					ensure!(p == input, "error-payload:from_vec", "{} from_vec: error payload {} is not the input {}", ty.name(), show(&p), show(input));
				}
			}
		}};
	}
	match ty {
		Ty::Iri => fv!(iref::IriBuf, InvalidIri),
		Ty::IriRef => fv!(iref::IriRefBuf, InvalidIriRef),
		_ => return Ok(0),
	}
	Ok(1)
}

/// Runs every applicable route for `(ty, input)` against the expectation.
pub fn run(ty: Ty, input: &[u8], exp: bool, all: bool) -> Result<u64, Failure> {
	if ty.is_bytes() {
		match ty {
			Ty::Uri => uri(input, exp, all),
			Ty::UriRef => uri_ref(input, exp, all),
			Ty::UScheme => u_scheme(input, exp, all),
			Ty::UAuthority => u_authority(input, exp, all),
			Ty::UUserInfo => u_userinfo(input, exp, all),
			Ty::UHost => u_host(input, exp, all),
			Ty::UPort => u_port(input, exp, all),
			Ty::UPath => u_path(input, exp, all),
			Ty::USegment => u_segment(input, exp, all),
			Ty::UQuery => u_query(input, exp, all),
			Ty::UFragment => u_fragment(input, exp, all),
			_ => unreachable!(),
		}
	} else {
		let mut n = iri_from_vec(ty, input, exp)?;
		if let Ok(s) = std::str::from_utf8(input) {
			n += match ty {
				Ty::Iri => iri(s, exp, all),
				Ty::IriRef => iri_ref(s, exp, all),
				Ty::IAuthority => i_authority(s, exp, all),
				Ty::IUserInfo => i_userinfo(s, exp, all),
				Ty::IHost => i_host(s, exp, all),
				Ty::IPath => i_path(s, exp, all),
				Ty::ISegment => i_segment(s, exp, all),
				Ty::IQuery => i_query(s, exp, all),
				Ty::IFragment => i_fragment(s, exp, all),
				_ => unreachable!(),
			}?;
		}
		Ok(n)
	}
}

/// The library's own verdict through the plain checked constructor.
pub fn lib_accepts(ty: Ty, s: &str) -> bool {
	match ty {
		Ty::Uri => iref::Uri::new(s).is_ok(),
		Ty::UriRef => iref::UriRef::new(s).is_ok(),
		Ty::UScheme => iref::uri::Scheme::new(s).is_ok(),
		Ty::UAuthority => iref::uri::Authority::new(s).is_ok(),
		Ty::UUserInfo => iref::uri::UserInfo::new(s).is_ok(),
		Ty::UHost => iref::uri::Host::new(s).is_ok(),
		Ty::UPort => iref::uri::Port::new(s).is_ok(),
		Ty::UPath => iref::uri::Path::new(s).is_ok(),
		Ty::USegment => iref::uri::Segment::new(s).is_ok(),
		Ty::UQuery => iref::uri::Query::new(s).is_ok(),
		Ty::UFragment => iref::uri::Fragment::new(s).is_ok(),
		Ty::Iri => iref::Iri::new(s).is_ok(),
		Ty::IriRef => iref::IriRef::new(s).is_ok(),
		Ty::IAuthority => iref::iri::Authority::new(s).is_ok(),
		Ty::IUserInfo => iref::iri::UserInfo::new(s).is_ok(),
		Ty::IHost => iref::iri::Host::new(s).is_ok(),
		Ty::IPath => iref::iri::Path::new(s).is_ok(),
		Ty::ISegment => iref::iri::Segment::new(s).is_ok(),
		Ty::IQuery => iref::iri::Query::new(s).is_ok(),
		Ty::IFragment => iref::iri::Fragment::new(s).is_ok(),
	}
}
