//! C13 — URIs embed into IRIs and conversions between the four kinds are exact.

use proptest::collection::vec;
use proptest::prelude::*;
use serde::{Deserialize, Serialize};

use crate::engine::{guard, Ctx, Failure, Prop, Tier};
use crate::gen::{self, Fam, Opt};
use crate::oracle::abnf::{self, Ty};
use crate::oracle::split::split;
use crate::props::c04::{op_strategy, Op};
use crate::props::c08::h2;
use crate::props::c10::POp;
use crate::props::c11::AOp;
use crate::{both_families, ensure};

#[derive(Debug, Clone, Hash, Serialize, Deserialize)]
pub struct Case {
	/// a valid IRI reference (possibly ASCII, possibly with a scheme)
	pub text: String,
	/// a second value for the pairwise differentials
	pub other: String,
	/// edit ops for the editing differential (ASCII arguments only are used)
	pub ops: Vec<Op>,
}

pub struct C13;

fn same(a: &[u8], b: &[u8]) -> bool {
	a.as_ptr() == b.as_ptr() && a.len() == b.len()
}

both_families! { [c05, c10]
	/// Texts of a reference buffer after each op of the vector (None if an op panics).
	pub fn trace(text: &str, ops: &[Op]) -> Option<Vec<String>> {
		let mut buf = RiRefBuf::new(text.into()).ok()?;
		let mut out = vec![];
		for op in ops {
			let r = guard(|| match op {
				Op::Set(s) => c05::apply_ref(&mut buf, s),
				Op::Auth(v) => {
					if let Some(mut h) = buf.authority_mut() {
						for a in v {
							match a {
								AOp::SetUserinfo(u) => h.set_userinfo(u.as_deref().map(|u| UserInfo::new(u).unwrap())),
								AOp::SetHost(x) => h.set_host(Host::new(x.as_str()).unwrap()),
								AOp::SetPort(p) => h.set_port(p.as_deref().map(|p| Port::new(p).unwrap())),
								AOp::Read => {}
							}
						}
					}
				}
				Op::Path(v) => {
					let mut h = buf.path_mut();
					for p in v { c10::apply(&mut h, p) }
				}
				Op::Resolve(b) => buf.resolve(Ri::new(b.as_str()).unwrap()),
			});
			if r.is_err() { return None }
			out.push(String::from_utf8_lossy(buf.as_bytes()).to_string());
		}
		Some(out)
	}

	pub fn parts_texts(t: &str) -> Option<Vec<Option<String>>> {
		let r = RiRef::new(t).ok()?;
		let p = r.parts();
		Some(vec![p.scheme.map(|s| s.as_str().to_string()), p.authority.map(|s| s.as_str().to_string()), Some(p.path.as_str().to_string()), p.query.map(|s| s.as_str().to_string()), p.fragment.map(|s| s.as_str().to_string())])
	}

	pub fn cmp_all(a: &str, b: &str) -> Option<(bool, std::cmp::Ordering, (u64, u64, u64), Option<(bool, std::cmp::Ordering, (u64, u64, u64))>)> {
		let x = RiRef::new(a).ok()?;
		let y = RiRef::new(b).ok()?;
		let base = (x == y, x.cmp(y), crate::props::c08::h2(x));
		let full = match (Ri::new(a), Ri::new(b)) {
			(Ok(xf), Ok(yf)) => Some((xf == yf, xf.cmp(yf), crate::props::c08::h2(xf))),
			_ => None,
		};
		Some((base.0, base.1, base.2, full))
	}

	pub fn op_ok(op: &Op) -> bool {
		match op {
			Op::Set(s) => c05::op_valid(s),
			Op::Auth(v) => v.iter().all(|a| match a {
				AOp::SetUserinfo(Some(u)) => UserInfo::new(u.as_str()).is_ok(),
				AOp::SetHost(h) => Host::new(h.as_str()).is_ok(),
				AOp::SetPort(Some(p)) => Port::new(p.as_str()).is_ok(),
				_ => true,
			}),
			Op::Path(v) => v.iter().all(|p| c10::op_valid(p)),
			Op::Resolve(b) => Ri::new(b.as_str()).is_ok(),
		}
	}
}

fn conversions(t: &str, cx: &mut Ctx) -> Result<(), Failure> {
	use iref::{Iri, IriBuf, IriRef, IriRefBuf, Uri, UriBuf, UriRef, UriRefBuf};
	let is_uri = abnf::accepts_str(Ty::Uri, t);
	let is_uri_ref = abnf::accepts_str(Ty::UriRef, t);
	let is_iri = abnf::accepts_str(Ty::Iri, t);
	let has_scheme = split(t).scheme.is_some();
	ensure!(is_iri == has_scheme, "harness", "IRI-ness of {:?} vs Appendix-B scheme disagree", t);
	let tb = t.as_bytes();
	macro_rules! ok_borrowed {
		($name:expr, $e:expr) => {{
			let v = $e;
			ensure!(same(v.as_bytes(), tb), format!("text-or-address-changed:{}", $name), "{}: {:?} became {:?} (or moved)", $name, t, String::from_utf8_lossy(v.as_bytes()));
			cx.obs(1);
		}};
	}
	macro_rules! opt_borrowed {
		($name:expr, $e:expr, $exp:expr) => {{
			match $e {
				Some(v) => {
					ensure!($exp, format!("converts-unexpectedly:{}", $name), "{} succeeds on {:?} although the target grammar does not accept it", $name, t);
					ensure!(same(v.as_bytes(), tb), format!("text-or-address-changed:{}", $name), "{}: {:?} became {:?} (or moved)", $name, t, String::from_utf8_lossy(v.as_bytes()));
				}
				None => ensure!(!$exp, format!("conversion-refused:{}", $name), "{} fails on {:?} although the target grammar accepts it", $name, t),
			}
			cx.obs(1);
		}};
	}
	macro_rules! try_borrowed {
		($name:expr, $e:expr, $exp:expr) => {{
			match $e {
				Ok(v) => {
					ensure!($exp, format!("converts-unexpectedly:{}", $name), "{} succeeds on {:?} although the target grammar does not accept it", $name, t);
					ensure!(same(v.as_bytes(), tb), format!("text-or-address-changed:{}", $name), "{}: {:?} became {:?} (or moved)", $name, t, String::from_utf8_lossy(v.as_bytes()));
				}
				Err(e) => {
					ensure!(!$exp, format!("conversion-refused:{}", $name), "{} fails on {:?} although the target grammar accepts it", $name, t);
					ensure!(same(e.0.as_bytes(), tb), format!("error-payload:{}", $name), "{}: the error does not hand back the original value", $name);
				}
			}
			cx.obs(1);
		}};
	}
	macro_rules! try_owned {
		($name:expr, $e:expr, $exp:expr) => {{
			match $e {
				Ok(v) => {
					ensure!($exp, format!("converts-unexpectedly:{}", $name), "{} succeeds on {:?} although the target grammar does not accept it", $name, t);
					ensure!(v.as_bytes() == tb, format!("text-changed:{}", $name), "{}: {:?} became {:?}", $name, t, String::from_utf8_lossy(v.as_bytes()));
				}
				Err(e) => {
					ensure!(!$exp, format!("conversion-refused:{}", $name), "{} fails on {:?} although the target grammar accepts it", $name, t);
					ensure!(e.0.as_bytes() == tb, format!("error-payload:{}", $name), "{}: the error hands back {:?}, not the original {:?}", $name, String::from_utf8_lossy(e.0.as_bytes()), t);
				}
			}
			cx.obs(1);
		}};
	}
	// --- sources: IriRef / IriRefBuf (always valid here)
	let r = IriRef::new(t).map_err(|_| Failure::new("harness", format!("{:?} is not a valid IRI reference", t)))?;
	opt_borrowed!("IriRef::as_iri", r.as_iri(), is_iri);
	opt_borrowed!("IriRef::as_uri", r.as_uri(), is_uri);
	opt_borrowed!("IriRef::as_uri_ref", r.as_uri_ref(), is_uri_ref);
	try_borrowed!("TryFrom<&IriRef> for &Iri", <&Iri>::try_from(r), is_iri);
	try_borrowed!("TryFrom<&IriRef> for &Uri", <&Uri>::try_from(r), is_uri);
	try_borrowed!("TryFrom<&IriRef> for &UriRef", <&UriRef>::try_from(r), is_uri_ref);
	let ob = || IriRefBuf::new(t.to_string()).unwrap();
	try_owned!("IriRefBuf::try_into_iri", ob().try_into_iri(), is_iri);
	try_owned!("IriRefBuf::try_into_uri", ob().try_into_uri(), is_uri);
	try_owned!("IriRefBuf::try_into_uri_ref", ob().try_into_uri_ref(), is_uri_ref);
	try_owned!("TryFrom<IriRefBuf> for IriBuf", IriBuf::try_from(ob()), is_iri);
	try_owned!("TryFrom<IriRefBuf> for UriBuf", UriBuf::try_from(ob()), is_uri);
	try_owned!("TryFrom<IriRefBuf> for UriRefBuf", UriRefBuf::try_from(ob()), is_uri_ref);
	// --- sources: Iri / IriBuf
	match Iri::new(t) {
		Ok(i) => {
			ensure!(is_iri, "accepts-unexpectedly:Iri", "Iri accepts {:?}", t);
			ok_borrowed!("Iri::as_iri_ref", i.as_iri_ref());
			ok_borrowed!("From<&Iri> for &IriRef", <&IriRef>::from(i));
			opt_borrowed!("Iri::as_uri", i.as_uri(), is_uri);
			opt_borrowed!("Iri::as_uri_ref", i.as_uri_ref(), is_uri_ref);
			try_borrowed!("TryFrom<&Iri> for &Uri", <&Uri>::try_from(i), is_uri);
			try_borrowed!("TryFrom<&Iri> for &UriRef", <&UriRef>::try_from(i), is_uri_ref);
			let ib = || IriBuf::new(t.to_string()).unwrap();
			ensure!(ib().into_iri_ref().as_bytes() == tb, "text-changed:IriBuf::into_iri_ref", "IriBuf::into_iri_ref changed {:?}", t);
			ensure!(IriRefBuf::from(ib()).as_bytes() == tb, "text-changed:From<IriBuf> for IriRefBuf", "From<IriBuf> for IriRefBuf changed {:?}", t);
			try_owned!("IriBuf::try_into_uri", ib().try_into_uri(), is_uri);
			try_owned!("IriBuf::try_into_uri_ref", ib().try_into_uri_ref(), is_uri_ref);
			try_owned!("TryFrom<IriBuf> for UriBuf", UriBuf::try_from(ib()), is_uri);
			try_owned!("TryFrom<IriBuf> for UriRefBuf", UriRefBuf::try_from(ib()), is_uri_ref);
			cx.class("source:iri");
		}
		Err(_) => ensure!(!is_iri, "rejects-unexpectedly:Iri", "Iri rejects {:?} which has a scheme", t),
	}
	// --- sources: UriRef / UriRefBuf
	match UriRef::new(t) {
		Ok(u) => {
			ensure!(is_uri_ref, "accepts-unexpectedly:UriRef", "UriRef accepts {:?}", t);
			ok_borrowed!("UriRef::as_iri_ref", u.as_iri_ref());
			ok_borrowed!("From<&UriRef> for &IriRef", <&IriRef>::from(u));
			opt_borrowed!("UriRef::as_uri", u.as_uri(), is_uri);
			opt_borrowed!("UriRef::as_iri", u.as_iri(), is_iri);
			try_borrowed!("TryFrom<&UriRef> for &Uri", <&Uri>::try_from(u), is_uri);
			try_borrowed!("TryFrom<&UriRef> for &Iri", <&Iri>::try_from(u), is_iri);
			let ub = || UriRefBuf::new(tb.to_vec()).unwrap();
			ensure!(ub().into_iri_ref().as_bytes() == tb, "text-changed:UriRefBuf::into_iri_ref", "UriRefBuf::into_iri_ref changed {:?}", t);
			ensure!(IriRefBuf::from(ub()).as_bytes() == tb, "text-changed:From<UriRefBuf> for IriRefBuf", "From<UriRefBuf> for IriRefBuf changed {:?}", t);
			try_owned!("UriRefBuf::try_into_uri", ub().try_into_uri(), is_uri);
			try_owned!("UriRefBuf::try_into_iri", ub().try_into_iri(), is_iri);
			try_owned!("TryFrom<UriRefBuf> for UriBuf", UriBuf::try_from(ub()), is_uri);
			try_owned!("TryFrom<UriRefBuf> for IriBuf", IriBuf::try_from(ub()), is_iri);
			cx.class("source:uri-ref");
		}
		Err(_) => ensure!(!is_uri_ref, "rejects-unexpectedly:UriRef", "UriRef rejects {:?}", t),
	}
	// --- sources: Uri / UriBuf
	match Uri::new(t) {
		Ok(u) => {
			ensure!(is_uri, "accepts-unexpectedly:Uri", "Uri accepts {:?}", t);
			ok_borrowed!("Uri::as_uri_ref", u.as_uri_ref());
			ok_borrowed!("Uri::as_iri", u.as_iri());
			ok_borrowed!("Uri::as_iri_ref", u.as_iri_ref());
			let ub = || UriBuf::new(tb.to_vec()).unwrap();
			ensure!(ub().into_uri_ref().as_bytes() == tb, "text-changed:UriBuf::into_uri_ref", "UriBuf::into_uri_ref changed {:?}", t);
			ensure!(ub().into_iri().as_bytes() == tb, "text-changed:UriBuf::into_iri", "UriBuf::into_iri changed {:?}", t);
			ensure!(ub().into_iri_ref().as_bytes() == tb, "text-changed:UriBuf::into_iri_ref", "UriBuf::into_iri_ref changed {:?}", t);
			ensure!(UriRefBuf::from(ub()).as_bytes() == tb, "text-changed:From<UriBuf> for UriRefBuf", "From<UriBuf> for UriRefBuf changed {:?}", t);
			// every accepted URI is accepted as IRI with the same text
			ensure!(Iri::new(t).is_ok() && IriRef::new(t).is_ok(), "uri-not-an-iri", "{:?} is a URI but is rejected as IRI / IRI reference", t);
			cx.class("source:uri");
		}
		Err(_) => ensure!(!is_uri, "rejects-unexpectedly:Uri", "Uri rejects {:?}", t),
	}
	cx.class_if(!is_uri_ref, "narrowing-fails (non-ASCII)");
	cx.class_if(!has_scheme, "full-conversion-fails (no scheme)");
	Ok(())
}

fn differential(case: &Case, cx: &mut Ctx) -> Result<(), Failure> {
	let (a, b) = (&case.text, &case.other);
	if !(a.is_ascii() && iref::UriRef::new(a.as_str()).is_ok()) {
		return Ok(());
	}
	// components
	let pu = u::parts_texts(a);
	let pi = i::parts_texts(a);
	ensure!(pu == pi, "families-differ:components", "{:?}: URI components {:?}, IRI components {:?}", a, pu, pi);
	cx.obs(1);
	// comparison and hashing against a second value
	if b.is_ascii() && iref::UriRef::new(b.as_str()).is_ok() {
		let cu = guard(|| u::cmp_all(a, b)).ok().flatten();
		let ci = guard(|| i::cmp_all(a, b)).ok().flatten();
		ensure!(cu == ci, "families-differ:comparison", "{:?} vs {:?}: URI family (==, cmp, hash, full-type) = {:?}, IRI family = {:?}", a, b, cu, ci);
		cx.obs(3);
		cx.class("differential:comparison");
		// the same against prefix VIEWS of a's own buffer (values sharing a start address)
		for k in gen::valid_prefix_cuts(a.as_str(), 4, |p| iref::UriRef::new(p).is_ok()) {
			let cu = guard(|| u::cmp_all(a, &a[..k])).ok().flatten();
			let ci = guard(|| i::cmp_all(a, &a[..k])).ok().flatten();
			ensure!(cu == ci, "families-differ:comparison-aliased", "{:?} vs the view {:?} of its own buffer: URI family (==, cmp, hash, full-type) = {:?}, IRI family = {:?}", a, &a[..k], cu, ci);
			cx.obs(3);
		}
		// hashes across the two families of one text
		let hu = h2(iref::UriRef::new(a.as_str()).unwrap());
		let hi = h2(iref::IriRef::new(a.as_str()).unwrap());
		ensure!(hu == hi, "families-differ:hash", "{:?}: UriRef hashes to {:x?}, IriRef to {:x?}", a, hu, hi);
		// resolution
		if let (Ok(bu), Ok(bi)) = (iref::Uri::new(b.as_str()), iref::Iri::new(b.as_str())) {
			let ru = guard(|| iref::UriRef::new(a.as_str()).unwrap().resolved(bu).as_str().to_string());
			let ri = guard(|| iref::IriRef::new(a.as_str()).unwrap().resolved(bi).as_str().to_string());
			match (ru, ri) {
				(Ok(x), Ok(y)) => ensure!(x == y, "families-differ:resolution", "{:?} against {:?}: URI family gives {:?}, IRI family {:?}", a, b, x, y),
				(x, y) => ensure!(x.is_err() == y.is_err(), "families-differ:resolution-panic", "{:?} against {:?}: one family panics", a, b),
			}
			cx.obs(1);
			cx.class("differential:resolution");
		}
	}
	// editing
	let ops: Vec<Op> = case.ops.iter().filter(|o| u::op_ok(o) && i::op_ok(o) && format!("{:?}", o).is_ascii()).cloned().collect();
	if !ops.is_empty() {
		let tu = u::trace(a, &ops);
		let ti = i::trace(a, &ops);
		ensure!(tu == ti, "families-differ:editing", "{:?} with ops {:?}: URI family trace {:?}, IRI family trace {:?}", a, ops, tu, ti);
		cx.obs(ops.len() as u64);
		cx.class("differential:editing");
	}
	Ok(())
}

impl Prop for C13 {
	type Case = Case;
	const ID: &'static str = "C13";

	fn rule() -> String {
		"cases = (text: a valid IRI reference from G-REF - half ASCII (so also a URI reference), half with non-ASCII; with and without scheme; second value; edit-op vector). Conversions: every as_*/into_*/try_into_*/TryFrom/From between the eight types (42 routes) is run from every source type that accepts the text; it must succeed EXACTLY when the independent recogniser accepts the text for the target type (URI family: ASCII grammar; full types: has a scheme), keep the text (and the address for borrowed conversions), and on failure hand back the original value (same address for borrowed, same text for owned). Differential on ASCII input: components, ==/cmp/hash (reference and full types) against a second value, hash across families, resolved(), and the text after every op of a C04 op vector are identical in the URI and IRI families. Non-trivial: a conversion fails, or a differential run with >= 1 edit op.".into()
	}

	fn cases(tier: Tier) -> u64 {
		tier.pick(150_000, 4_000_000)
	}

	fn strategy(tier: Tier) -> BoxedStrategy<Case> {
		let text = |full: bool| {
			prop_oneof![
				10 => gen::reference(Opt::new(Fam::Uri).with_nonutf8(true), full),
				10 => gen::reference(Opt::new(Fam::Iri).with_nonutf8(true), full),
				// hosts that only a wrong grammar accepts (whatever one family accepts must be accepted by the other)
				1 => (proptest::sample::select(gen::NEAR_VALID_HOSTS.to_vec()), proptest::sample::select(vec!["s://{}/p", "//{}", "s://u@{}:80/?q#f", "s://{}"])).prop_map(|(h, t)| t.replace("{}", h)),
			]
		};
		(any::<bool>(), any::<bool>())
			.prop_flat_map(move |(f1, f2)| {
				(text(f1), text(f2), vec(op_strategy(Opt::new(Fam::Uri), false, tier), 0..5), proptest::array::uniform4(0u8..7), 0u8..3).prop_map(|(text, other, ops, qf, related)| {
					// a third of the time the two values share scheme, authority and path and differ in query and
					// fragment only (absent, empty, or small values, independently on each side): ordering is then
					// decided by the LATER components, in the documented order
					if related == 0 {
						let pool = [None, Some(""), Some("0"), Some("1"), Some("2"), Some("q"), Some("%30")];
						let p = split(&text);
						let mk = |q: u8, f: u8| {
							let mut x = p.clone();
							x.query = pool[q as usize % 7].map(|s| s.to_string());
							x.fragment = pool[f as usize % 7].map(|s| s.to_string());
							crate::oracle::split::recompose(&x)
						};
						return Case { text: mk(qf[0], qf[1]), other: mk(qf[2], qf[3]), ops };
					}
					Case { text, other, ops }
				})
			})
			.boxed()
	}

	fn enumerate(_tier: Tier, shard: usize, nshards: usize, f: &mut dyn FnMut(Case, bool) -> bool) -> Vec<&'static str> {
		// conversions reference -> full value hinge on "has a scheme": scheme of every length 1..=600 and the usual
		// limits up to 70 000; and first segments with a ':' at such offsets (NOT a scheme: '_' is not a scheme character)
		for (i, n) in gen::sweep_lengths(600, 70_000).into_iter().enumerate() {
			if i % nshards != shard {
				continue;
			}
			for text in [format!("s{}:p/q?r#f", gen::filler(n)), format!("S{}://u@h:1/", "9".repeat(n)), format!("{}_:b/c", "a".repeat(n)), format!("./{}:b", "a".repeat(n)), format!("s:{}\u{e9}", "a".repeat(n))] {
				if !f(Case { text, other: "s:p".into(), ops: vec![] }, true) {
					return vec![];
				}
			}
		}
		vec!["scheme of every length 1..=600 and the usual limits up to 70 000, and non-scheme first segments with ':' at those offsets, through all 42 conversions"]
	}

	fn check(case: &Case, cx: &mut Ctx) -> Result<(), Failure> {
		// every valid URI (reference) is a valid IRI (reference): whatever the URI family accepts the IRI family
		// accepts (both verdicts are the library's own; near-valid hosts are generated on purpose)
		if case.text.is_ascii() {
			let t = case.text.as_str();
			let (ur, ir) = (iref::UriRef::new(t).is_ok(), iref::IriRef::new(t).is_ok());
			ensure!(!ur || ir, "uri-ref-not-an-iri-ref", "{:?} is accepted as a URI reference but rejected as an IRI reference", t);
			let (u, i) = (iref::Uri::new(t).is_ok(), iref::Iri::new(t).is_ok());
			ensure!(!u || i, "uri-not-an-iri", "{:?} is accepted as a URI but rejected as an IRI", t);
			cx.obs(2);
		}
		if iref::IriRef::new(case.text.as_str()).is_err() {
			cx.class("rejected-by-library");
			return Ok(());
		}
		if !abnf::accepts_str(Ty::IriRef, &case.text) {
			// the library accepts a text the RFC grammar does not derive: that is C01's subject; the conversion
			// oracle below has no expectation for such a text
			cx.class("accepted-by-library-but-underivable (a C01 matter)");
			return Ok(());
		}
		conversions(&case.text, cx)?;
		// the same conversions with the text living at an odd offset of a larger buffer, and in a re-used buffer
		gen::with_misaligned(&case.text, |s, k| conversions(s, cx).map_err(|f| Failure::new(format!("misaligned:{}", f.sig), format!("(input at byte offset {k} of a larger buffer) {}", f.msg))))?;
		gen::with_arena(&case.text, |s| conversions(s, cx).map_err(|f| Failure::new(format!("reused-buffer:{}", f.sig), format!("(input in a re-used buffer) {}", f.msg))))?;
		// one non-ASCII scalar near the start or the end of otherwise ASCII text, at every alignment
		// (word-at-a-time "is it ASCII" scans have an unaligned head and tail)
		if case.text.is_ascii() && case.text.len() >= 8 && case.text.len() <= 400 && case.text.len() % 8 == 0 {
			let n = case.text.len();
			for p in (0..8).chain(n.saturating_sub(8)..n) {
				let v = format!("{}\u{e9}{}", &case.text[..p], &case.text[p..]);
				if iref::IriRef::new(v.as_str()).is_err() {
					continue;
				}
				for k in 0..8usize {
					let padded = format!("{}{}{}", &"~~~~~~~~"[..k], v, "~~~");
					conversions(&padded[k..k + v.len()], cx).map_err(|f| Failure::new(format!("one-non-ascii:{}", f.sig), format!("(one non-ASCII scalar at char {p}, text at byte offset {k} of a larger buffer) {}", f.msg)))?;
				}
				cx.class("one-non-ascii-scalar-at-every-alignment");
			}
		}
		differential(case, cx)?;
		cx.class("judged");
		let fails = !abnf::accepts_str(Ty::UriRef, &case.text) || split(&case.text).scheme.is_none();
		cx.nt_if(fails || (!case.ops.is_empty() && case.text.is_ascii()));
		let _ = POp::Pop;
		Ok(())
	}

	fn floors(_tier: Tier) -> Vec<(&'static str, u64)> {
		vec![
			("judged", 100_000),
			("source:uri", 20_000),
			("source:uri-ref", 40_000),
			("source:iri", 40_000),
			("narrowing-fails (non-ASCII)", 20_000),
			("full-conversion-fails (no scheme)", 20_000),
			("differential:comparison", 10_000),
			("differential:resolution", 5_000),
			("differential:editing", 20_000),
		]
	}
}
