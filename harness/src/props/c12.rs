//! C12 — segment iteration and path queries agree with the '/'-split.

use proptest::prelude::*;
use serde::{Deserialize, Serialize};

use crate::engine::{Ctx, Failure, Prop, Tier};
use crate::gen::{self, Fam, Opt};
use crate::oracle::norm;
use crate::oracle::split::{render, segs};
use crate::{both_families, by_fam, ensure};

#[derive(Debug, Clone, Hash, Serialize, Deserialize)]
pub struct Case {
	pub fam: Fam,
	pub path: String,
	/// `true` = next(), `false` = next_back(); `None` = all 2^(n+2) schedules (n <= 10).
	pub schedule: Option<Vec<bool>>,
}

pub struct C12;

both_families! {
	fn run_schedule(p: &Path, sched: impl Iterator<Item = bool>, exp: &[String]) -> Result<(), Failure> {
		let mut it = p.segments();
		let mut front: Vec<String> = vec![];
		let mut back: Vec<String> = vec![];
		let mut steps = vec![];
		for f in sched {
			steps.push(f);
			let x = if f { it.next() } else { it.next_back() };
			match x {
				Some(s) => {
					if f { front.push(s.as_str().to_string()) } else { back.push(s.as_str().to_string()) }
					ensure!(front.len() + back.len() <= exp.len(), "iter-too-many", "path {:?} schedule {:?}: iterator yielded more than the {} segments of the split (front {:?}, back {:?})", p.as_str(), steps, exp.len(), front, back);
				}
				None => {
					ensure!(front.len() + back.len() == exp.len(), "iter-early-none", "path {:?} schedule {:?}: iterator returned None after {} of {} segments", p.as_str(), steps, front.len() + back.len(), exp.len());
				}
			}
		}
		let mut all = front.clone();
		all.extend(back.iter().rev().cloned());
		let n = all.len();
		let expected: Vec<String> = exp[..front.len()].iter().chain(exp[exp.len() - back.len()..].iter()).cloned().collect();
		ensure!(all == expected, "iter-wrong-items", "path {:?} schedule {:?}: yielded front {:?} back {:?}, split is {:?}", p.as_str(), steps, front, back, exp);
		let _ = n;
		Ok(())
	}

	/// After the steps `steps` (true = next, false = next_back) on a fresh iterator, every other way of
	/// consuming the REST of a double-ended iterator must see exactly the middle of the split.
	fn adaptors_after(p: &Path, steps: &[bool], exp: &[String], which: Option<usize>) -> Result<(), Failure> {
		let fl = steps.iter().filter(|b| **b).count();
		let bl = steps.len() - fl;
		if fl + bl > exp.len() {
			return Ok(());
		}
		let rest: Vec<String> = exp[fl..exp.len() - bl].to_vec();
		let fresh = || {
			let mut it = p.segments();
			for f in steps {
				let _ = if *f { it.next() } else { it.next_back() };
			}
			it
		};
		let s = |x: Option<&Segment>| x.map(|s| s.as_str().to_string());
		for a in 0..11usize {
			if let Some(w) = which {
				if w % 11 != a {
					continue;
				}
			}
			let (name, got, want): (&str, String, String) = match a {
				0 => ("last()", format!("{:?}", s(fresh().last())), format!("{:?}", rest.last())),
				1 => ("count()", format!("{}", fresh().count()), format!("{}", rest.len())),
				2 => {
					// nth(k) for EVERY k up to two past the end
					// (for very long paths: the first 12 and the last 6 values of k)
					let ks: Vec<usize> = (0..rest.len() + 2).filter(|k| *k < 12 || *k + 6 >= rest.len() + 2).collect();
					let got: Vec<Option<String>> = ks.iter().map(|&k| s(fresh().nth(k))).collect();
					let want: Vec<Option<String>> = ks.iter().map(|&k| rest.get(k).cloned()).collect();
					("nth(k) for every k", format!("{:?}", got), format!("{:?}", want))
				}
				3 => {
					let ks: Vec<usize> = (0..rest.len() + 2).filter(|k| *k < 12 || *k + 6 >= rest.len() + 2).collect();
					let got: Vec<Option<String>> = ks.iter().map(|&k| s(fresh().nth_back(k))).collect();
					let want: Vec<Option<String>> = ks.iter().map(|&k| rest.iter().rev().nth(k).cloned()).collect();
					("nth_back(k) for every k", format!("{:?}", got), format!("{:?}", want))
				}
				4 => ("collect()", format!("{:?}", fresh().map(|x| x.as_str().to_string()).collect::<Vec<_>>()), format!("{:?}", rest)),
				5 => ("rev().collect()", format!("{:?}", fresh().rev().map(|x| x.as_str().to_string()).collect::<Vec<_>>()), format!("{:?}", rest.iter().rev().cloned().collect::<Vec<_>>())),
				6 => {
					let (lo, hi) = fresh().size_hint();
					let ok = lo <= rest.len() && hi.map(|h| rest.len() <= h).unwrap_or(true);
					("size_hint()", format!("{}", ok), "true".to_string())
				}
				8 => ("fold()", format!("{:?}", fresh().fold(Vec::new(), |mut v, x| { v.push(x.as_str().to_string()); v })), format!("{:?}", rest)),
				9 => ("rfold()", format!("{:?}", fresh().rfold(Vec::new(), |mut v, x| { v.push(x.as_str().to_string()); v })), format!("{:?}", rest.iter().rev().cloned().collect::<Vec<_>>())),
				10 => {
					let (mut f, mut b): (Vec<String>, Vec<String>) = (Vec::new(), Vec::new());
					let _ = fresh().try_fold((), |(), x| { f.push(x.as_str().to_string()); Some(()) });
					fresh().rev().for_each(|x| b.push(x.as_str().to_string()));
					("try_fold() / rev().for_each()", format!("{:?}", (f, b)), format!("{:?}", (rest.clone(), rest.iter().rev().cloned().collect::<Vec<_>>())))
				}
				_ => {
					let mut it = fresh();
					let a1 = s(it.nth(0));
					let b1 = s(it.nth_back(0));
					let c1 = s(it.last());
					let mut m = rest.clone();
					let ea = if m.is_empty() { None } else { Some(m.remove(0)) };
					let eb = m.pop();
					let ec = m.last().cloned();
					("nth(0), nth_back(0), last()", format!("{:?}", (a1, b1, c1)), format!("{:?}", (ea, eb, ec)))
				}
			};
			ensure!(got == want, format!("iter-adaptor:{name}"), "path {:?}: after steps {:?} (true = next, false = next_back), {name} gives {got}, the rest of the split is {:?} so it should give {want}", p.as_str(), steps, rest);
		}
		Ok(())
	}

	pub fn check(case: &Case, cx: &mut Ctx) -> Result<(), Failure> {
		let text = case.path.as_str();
		let p = match Path::new(text) {
			Ok(p) => p,
			Err(_) => { cx.class("rejected-by-library"); return Ok(()) }
		};
		let (abs, exp) = segs(text);
		let n = exp.len();
		// schedules
		match &case.schedule {
			Some(s) => {
				// pad so that exhaustion is observed
				let padded = s.iter().copied().chain([true, false, true].into_iter());
				// make sure the schedule consumes everything: append n front steps
				let full: Vec<bool> = padded.chain(std::iter::repeat(true).take(n)).chain([true, false].into_iter()).collect();
				run_schedule(p, full.into_iter(), &exp)?;
				// after every prefix of the schedule, one of the other consuming adaptors
				let steps: Vec<bool> = s.iter().copied().take(n).collect();
				for t in 0..=steps.len() {
					adaptors_after(p, &steps[..t], &exp, Some(t + n))?;
				}
				cx.obs(1 + steps.len() as u64);
				cx.nt_if(n >= 2 && s.iter().take(n).any(|b| *b) && s.iter().take(n).any(|b| !*b));
			}
			None => {
				ensure!(n <= 12, "harness", "all-schedules case with {} segments", n);
				let bits = n + 2;
				for m in 0..(1u32 << bits) {
					run_schedule(p, (0..bits).map(|i| (m >> i) & 1 == 1), &exp)?;
				}
				cx.obs(1 << bits);
				// every partially consumed state (every step sequence that fits) x every adaptor
				if n <= 6 {
					for l in 0..=n {
						for m in 0..(1u32 << l) {
							let steps: Vec<bool> = (0..l).map(|i| (m >> i) & 1 == 1).collect();
							adaptors_after(p, &steps, &exp, None)?;
						}
					}
					cx.obs(8 << (n + 1));
					cx.class("all-states-x-all-adaptors");
				}
				cx.nt_if(n >= 2);
				cx.class("all-schedules");
			}
		}
		// collected
		let fwd: Vec<String> = p.segments().map(|s| s.as_str().to_string()).collect();
		ensure!(fwd == exp, "iter-forward", "path {:?}: forward iteration {:?}, split {:?}", text, fwd, exp);
		let mut bwd: Vec<String> = p.segments().rev().map(|s| s.as_str().to_string()).collect();
		bwd.reverse();
		ensure!(bwd == exp, "iter-backward", "path {:?}: backward iteration (reversed) {:?}, split {:?}", text, bwd, exp);
		ensure!(render(abs, &fwd) == text, "join", "path {:?}: joining the yielded segments gives {:?}", text, render(abs, &fwd));
		let via_into: Vec<String> = p.into_iter().map(|s| s.as_str().to_string()).collect();
		ensure!(via_into == exp, "iter-intoiter", "path {:?}: IntoIterator {:?}, split {:?}", text, via_into, exp);
		// queries
		ensure!(p.is_empty() == exp.is_empty(), "is_empty", "path {:?}: is_empty() = {}, split has {} segments", text, p.is_empty(), n);
		ensure!(p.is_absolute() == abs && p.is_relative() != abs, "is_absolute", "path {:?}: is_absolute() = {}", text, p.is_absolute());
		ensure!(p.segment_count() == n, "segment_count", "path {:?}: segment_count() = {}, split has {}", text, p.segment_count(), n);
		let first = p.first().map(|s| s.as_str().to_string());
		ensure!(first.as_ref() == exp.first(), "first", "path {:?}: first() = {:?}, split first = {:?}", text, first, exp.first());
		let last = p.last().map(|s| s.as_str().to_string());
		ensure!(last.as_ref() == exp.last(), "last", "path {:?}: last() = {:?}, split last = {:?}", text, last, exp.last());
		let fname = p.file_name().map(|s| s.as_str().to_string());
		let exp_fname = exp.last().filter(|s| !s.is_empty()).cloned();
		ensure!(fname == exp_fname, "file_name", "path {:?}: file_name() = {:?}, expected {:?}", text, fname, exp_fname);
		let dir = p.directory().as_str().to_string();
		let exp_dir = match text.rfind('/') { Some(i) => text[..=i].to_string(), None => String::new() };
		ensure!(dir == exp_dir, "directory", "path {:?}: directory() = {:?}, expected {:?}", text, dir, exp_dir);
		let nn = norm::n(abs, &exp);
		let nlen = p.normalized_segments().len();
		ensure!(nlen == nn.len(), "normalized-len", "path {:?}: normalized_segments().len() = {}, model has {} ({:?})", text, nlen, nn.len(), nn);
		let ncount = p.normalized_segments().count();
		ensure!(ncount == nlen, "normalized-len-vs-count", "path {:?}: normalized_segments().len() = {} but it yields {} items", text, nlen, ncount);
		// parent
		let parent = p.parent();
		match parent {
			Some(pp) => {
				let pt = pp.as_str();
				ensure!(n >= 1, "parent-of-empty", "path {:?} has no segments but parent() = {:?}", text, pt);
				ensure!(Path::new(pt).is_ok(), "parent-invalid", "path {:?}: parent() = {:?} is not a valid path", text, pt);
				ensure!(pp.is_absolute() == abs, "parent-absoluteness", "path {:?}: parent() = {:?} changes absoluteness", text, pt);
				ensure!(norm::accept_strict(pt, abs, &exp[..n - 1]), "parent-segments", "path {:?}: parent() = {:?}, expected a rendering of {:?}", text, pt, &exp[..n - 1]);
				cx.class("parent-some");
			}
			None => {
				ensure!(n == 0 || (n == 1 && !abs), "parent-none", "path {:?} with segments {:?}: parent() = None", text, exp);
				cx.class("parent-none");
			}
		}
		let poe = p.parent_or_empty().as_str().to_string();
		let exp_poe = match parent { Some(pp) => pp.as_str().to_string(), None => if abs { "/".to_string() } else { String::new() } };
		ensure!(poe == exp_poe, "parent_or_empty", "path {:?}: parent_or_empty() = {:?}, expected {:?}", text, poe, exp_poe);
		cx.obs(14);
		cx.class_if(exp.iter().any(|s| s.is_empty()), "empty-segment");
		cx.class_if(exp.first().map(|s| s.is_empty()).unwrap_or(false), "leading-empty");
		cx.class_if(exp.last().map(|s| s.is_empty()).unwrap_or(false), "trailing-empty");
		cx.class_if(!text.is_ascii(), "non-ascii");
		cx.class_if(n > 16, "more-than-16-segments");
		Ok(())
	}
}

fn strings_over(alphabet: &[&str], max_len: usize, f: &mut dyn FnMut(String) -> bool) -> bool {
	// all sequences of up to max_len alphabet items
	let k = alphabet.len();
	for len in 0..=max_len {
		let total = (k as u64).pow(len as u32);
		for mut m in 0..total {
			let mut s = String::new();
			for _ in 0..len {
				s.push_str(alphabet[(m % k as u64) as usize]);
				m /= k as u64;
			}
			if !f(s) {
				return false;
			}
		}
	}
	true
}

impl Prop for C12 {
	type Case = Case;
	const ID: &'static str = "C12";

	fn rule() -> String {
		"cases = (family, path, schedule). Exhaustive part: every string of length <= 8 over {a,/,.} and of <= 5 items over {a,/,é,:,%41} (IRI; the ASCII ones also for URI), each under ALL 2^(n+2) next/next_back schedules (n = number of segments; the two extra steps check that an exhausted iterator stays exhausted). Random part: generator paths (up to 40+ segments, multi-byte) with random schedules. After every partially consumed state (all of them for <= 6 segments, every schedule prefix otherwise) the other consuming adaptors - last, count, nth, nth_back, collect, rev, size_hint, mixed - must see exactly the rest. Oracle: '/'-split of the text after the optional leading '/'. Non-trivial: >= 2 segments and (all schedules, or a schedule mixing both ends). An all-schedules case is one evaluation with 2^(n+2) observations.".into()
	}

	fn assumptions() -> Vec<String> {
		vec!["parent() is only constrained when it returns a value; None is accepted for paths with no segments or a single relative segment (pinned by the repository's own `parent` test)".into()]
	}

	fn cases(tier: Tier) -> u64 {
		tier.pick(200_000, 4_000_000)
	}

	fn strategy(_tier: Tier) -> BoxedStrategy<Case> {
		(gen::fam(), any::<bool>())
			.prop_flat_map(|(f, all)| {
				(gen::path(Opt::new(f).with_nonutf8(true)), proptest::collection::vec(any::<bool>(), 0..48)).prop_map(
					move |(path, sched)| {
						let n = segs(&path).1.len();
						Case { fam: f, path, schedule: if all && n <= 8 { None } else { Some(sched) } }
					},
				)
			})
			.boxed()
	}

	fn check(case: &Case, cx: &mut Ctx) -> Result<(), Failure> {
		if case.fam == Fam::Uri && !case.path.is_ascii() {
			cx.class("skipped-nonascii-uri");
			return Ok(());
		}
		by_fam!(case.fam, check(case, cx))
	}

	fn enumerate(tier: Tier, shard: usize, nshards: usize, f: &mut dyn FnMut(Case, bool) -> bool) -> Vec<&'static str> {
		let mut i = 0usize;
		let mut emit = |fam: Fam, s: String, f: &mut dyn FnMut(Case, bool) -> bool| -> bool {
			i += 1;
			if i % nshards != shard {
				return true;
			}
			let n = segs(&s).1.len();
			if n > 10 {
				return true;
			}
			f(Case { fam, path: s, schedule: None }, true)
		};
		let l1 = tier.pick(8, 10);
		let l2 = tier.pick(5, 6);
		let ok = strings_over(&["a", "/", "."], l1, &mut |s| emit(Fam::Uri, s.clone(), f) && emit(Fam::Iri, s, f))
			&& strings_over(&["a", "/", "\u{e9}", ":", "%41"], l2, &mut |s| {
				(if s.is_ascii() { emit(Fam::Uri, s.clone(), f) } else { true }) && emit(Fam::Iri, s, f)
			});
		// every Unicode scalar value inside, alone as, and at the end of a segment (IRI family):
		// closes "some byte of a multi-byte character is mistaken for a delimiter"
		let mut ok = ok;
		if ok {
			'sweep: for c in 0xA0u32..0x110000 {
				if c as usize % nshards != shard {
					continue;
				}
				let ch = match char::from_u32(c) {
					Some(ch) => ch,
					None => continue,
				};
				if !crate::oracle::abnf::is_ucschar(c) {
					continue;
				}
				for (abs, pat) in [(false, 0u8), (true, 1)] {
					let s = if pat == 0 { format!("a{ch}b/{ch}/x{ch}") } else { format!("/{ch}{ch}//{ch}a/") };
					let _ = abs;
					if !f(Case { fam: Fam::Iri, path: s, schedule: Some(vec![true, false, false, true]) }, false) {
						ok = false;
						break 'sweep;
					}
				}
			}
		}
		// runs of '/' of EVERY length 0..=1100 starting at every offset 0..8 (block-wise delimiter counting)
		if ok {
			'runs: for n in 0..=1100usize {
				for off in 0..8usize {
					if (n * 8 + off) % nshards != shard {
						continue;
					}
					let s = format!("{}{}b", "a".repeat(off), "/".repeat(n));
					let fam = if (n + off) % 2 == 0 { Fam::Uri } else { Fam::Iri };
					if !f(Case { fam, path: s, schedule: Some(vec![true, false, false, true, true]) }, n > 1) {
						ok = false;
						break 'runs;
					}
				}
			}
		}
		// long segments that begin or end with runs of '.' (the byte next to '/' in value: word-at-a-time searches for
		// '/' that also flag its neighbour), at every alignment, read from both ends
		if ok {
			let mut gi = 0usize;
			'dots: for off in 0..8usize {
				for l in [18usize, 20, 24, 25, 27, 28, 31, 32, 33, 40, 64, 100] {
					for k in 1..=5usize {
						gi += 1;
						if gi % nshards != shard {
							continue;
						}
						let d = ".".repeat(k);
						let s = format!("{}/{d}{}/{}{d}/{d}{}{d}/x{d}", "a".repeat(off), gen::filler(l), gen::filler(l), gen::filler(l));
						let fam = if gi % 2 == 0 { Fam::Uri } else { Fam::Iri };
						if !f(Case { fam, path: s, schedule: Some(vec![false, true, false, false, true]) }, true) {
							ok = false;
							break 'dots;
						}
					}
				}
			}
		}
		// periodic paths ("a/" x k, "abc/" x k, ...) of 8 KiB .. 64 KiB: per-lane counters overflow only when one
		// lane sees a delimiter in every row of a block
		if ok {
			let mut gi = 0usize;
			'periodic: for period in [1usize, 2, 3, 4, 5, 7, 8, 15, 16, 31, 32, 33, 64] {
				for total in [4096usize, 8190, 8192, 8200, 10_000, 16_384, 16_400, 32_768, 40_000, 65_536, 65_600] {
					gi += 1;
					if gi % nshards != shard {
						continue;
					}
					let unit = format!("{}/", "a".repeat(period - 1));
					let s = unit.repeat(total / period + 1);
					let fam = if gi % 2 == 0 { Fam::Uri } else { Fam::Iri };
					if !f(Case { fam, path: s, schedule: Some(vec![true, false]) }, true) {
						ok = false;
						break 'periodic;
					}
				}
			}
		}
		if ok {
			vec!["long segments beginning / ending with 1-5 dots at every alignment, read from both ends", "periodic paths (13 periods x 11 total lengths 4 KiB .. 64 KiB)", "runs of '/' of every length 0..=1100 at every offset 0..8", "all strings <= L1 over {a,/,.} x all schedules", "all strings <= L2 items over {a,/,é,:,%41} x all schedules", "every ucschar scalar value inside / alone as / at the end of a segment"]
		} else {
			vec![]
		}
	}

	fn floors(_tier: Tier) -> Vec<(&'static str, u64)> {
		vec![
			("all-schedules", 10_000),
			("leading-empty", 2_000),
			("trailing-empty", 2_000),
			("non-ascii", 2_000),
			("more-than-16-segments", 1_000),
			("parent-some", 10_000),
			("parent-none", 1_000),
		]
	}
}
