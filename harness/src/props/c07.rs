//! C07 — equality is exactly the documented normalising equivalence, and is total.

use proptest::prelude::*;

use crate::engine::{guard, Ctx, Failure, Prop, Tier};
use crate::gen::Fam;
use crate::props::cmpgen::{all_utf8, equiv, near, triple, Kind, Triple};
use crate::{both_families, by_fam, ensure, soft_fail};

pub struct C07;

pub const PANIC_NONUTF8: &str = "comparison-panics-on-non-utf8-percent-octets";

/// Result of one comparison under guard: Ok(bool) or a panic.
fn g(what: &str, a: &str, b: &str, f: impl FnOnce() -> bool) -> Result<Result<bool, String>, Failure> {
	match guard(f) {
		Ok(v) => Ok(Ok(v)),
		Err(p) => Ok(Err(format!("{what} on {:?} vs {:?} panicked at {}: {}", a, b, p.loc, crate::engine::truncate(&p.msg, 120)))),
	}
}

both_families! {
	/// Same-type laws for one kind, generic over the (unsized) value type.
	fn laws<T: ?Sized + PartialEq + Eq>(t: &Triple, cx: &mut Ctx, a: &T, b: &T, c: &T) -> Result<(), Failure> {
		let k = t.kind;
		let mut panicked = false;
		let mut eq = |x: &T, y: &T, xs: &str, ys: &str, cx: &mut Ctx| -> Result<Option<bool>, Failure> {
			match g("==", xs, ys, || x == y)? {
				Ok(v) => {
					let ne = guard(|| x != y).unwrap_or(!v);
					ensure!(ne == !v, "ne-inconsistent", "{:?} {:?}: == gives {} but != gives {}", xs, ys, v, ne);
					Ok(Some(v))
				}
				Err(msg) => {
					panicked = true;
					if !all_utf8(k, xs) || !all_utf8(k, ys) {
						soft_fail!(cx, PANIC_NONUTF8, "comparison is not total: {msg}");
						Ok(None)
					} else {
						Err(Failure::new("comparison-panics", format!("comparison is not total: {msg}")))
					}
				}
			}
		};
		let pairs = [(a, b, &t.a, &t.b), (b, c, &t.b, &t.c), (a, c, &t.a, &t.c)];
		let mut res = [None; 3];
		for (i, (x, y, xs, ys)) in pairs.iter().enumerate() {
			let exp = equiv(k, xs, ys);
			if let Some(v) = eq(x, y, xs, ys, cx)? {
				let dir = if exp { "equivalent-but-unequal" } else { "unequal-but-equal" };
				ensure!(v == exp, format!("{dir}:{}", k.label()), "{} {:?} == {:?} is {}, the documented equivalence says {}", k.label(), xs, ys, v, exp);
				res[i] = Some(v);
				// symmetry
				if let Some(w) = eq(y, x, ys, xs, cx)? {
					ensure!(w == v, "not-symmetric", "{:?} == {:?} is {} but the reverse is {}", xs, ys, v, w);
				}
			}
			cx.obs(3);
		}
		// reflexivity
		for (x, xs) in [(a, &t.a), (b, &t.b), (c, &t.c)] {
			if let Some(v) = eq(x, x, xs, xs, cx)? {
				ensure!(v, "not-reflexive", "{:?} == itself is false", xs);
			}
		}
		// transitivity
		if let (Some(true), Some(true), Some(ac)) = (res[0], res[1], res[2]) {
			ensure!(ac, "not-transitive", "{:?} == {:?} and {:?} == {:?} but {:?} != {:?}", t.a, t.b, t.b, t.c, t.a, t.c);
		}
		let _ = panicked;
		Ok(())
	}

	/// Cross-type impls between the four main types of the family must agree
	/// with the same-type verdict.
	fn cross(t: &Triple, cx: &mut Ctx) -> Result<(), Failure> {
		let (xs, ys) = (&t.a, &t.b);
		let x = RiRef::new(xs.as_str()).unwrap();
		let y = RiRef::new(ys.as_str()).unwrap();
		let base = match guard(|| x == y) { Ok(v) => v, Err(_) => return Ok(()) };
		let xb = RiRefBuf::new(xs.as_str().into()).unwrap();
		let yb = RiRefBuf::new(ys.as_str().into()).unwrap();
		let mut views: Vec<(&str, bool)> = vec![];
		macro_rules! v { ($name:expr, $e:expr) => { match guard(|| $e) { Ok(r) => views.push(($name, r)), Err(p) => return Err(Failure::new("cross-type-panics", format!("{} on {:?} vs {:?} panicked: {}", $name, xs, ys, p.msg))) } } }
		v!("RiRef == &RiRef", *x == y);
		v!("RiRef == RiRefBuf", *x == yb);
		v!("RiRefBuf == RiRefBuf", xb == yb);
		v!("RiRefBuf == RiRef", xb == *y);
		v!("RiRefBuf == &RiRef", xb == y);
		if let (Ok(xi), Ok(yi)) = (Ri::new(xs.as_str()), Ri::new(ys.as_str())) {
			let xib = RiBuf::new(xs.as_str().into()).unwrap();
			let yib = RiBuf::new(ys.as_str().into()).unwrap();
			v!("Ri == Ri", *xi == *yi);
			v!("Ri == &Ri", *xi == yi);
			v!("Ri == RiBuf", *xi == yib);
			v!("Ri == RiRef", *xi == *y);
			v!("Ri == &RiRef", *xi == y);
			v!("Ri == RiRefBuf", *xi == yb);
			v!("RiBuf == RiBuf", xib == yib);
			v!("RiBuf == Ri", xib == *yi);
			v!("RiBuf == &Ri", xib == yi);
			v!("RiBuf == RiRef", xib == *y);
			v!("RiBuf == &RiRef", xib == y);
			v!("RiBuf == RiRefBuf", xib == yb);
			v!("RiRef == Ri", *x == *yi);
			v!("RiRef == &Ri", *x == yi);
			v!("RiRef == RiBuf", *x == yib);
			v!("RiRefBuf == Ri", xb == *yi);
			v!("RiRefBuf == &Ri", xb == yi);
			v!("RiRefBuf == RiBuf", xb == yib);
			cx.class("cross-type:full");
		}
		for (name, r) in &views {
			ensure!(*r == base, format!("cross-type-disagrees:{name}"), "{name} on {:?} vs {:?} gives {}, RiRef == RiRef gives {}", xs, ys, r, base);
		}
		cx.obs(views.len() as u64);
		Ok(())
	}

	pub fn check(t: &Triple, cx: &mut Ctx) -> Result<bool, Failure> {
		macro_rules! go {
			($T:ty) => {{
				let a = match <$T>::new(t.a.as_str()) { Ok(v) => v, Err(_) => return Ok(false) };
				let b = match <$T>::new(t.b.as_str()) { Ok(v) => v, Err(_) => return Ok(false) };
				let c = match <$T>::new(t.c.as_str()) { Ok(v) => v, Err(_) => return Ok(false) };
				laws::<$T>(t, cx, a, b, c)?;
			}};
		}
		// a value compared with borrowed views OF ITSELF that share its start address
		// (parent / directory / base): must be judged like any other pair
		macro_rules! self_views {
			($T:ty, $v:expr, $kind:expr, [$($name:expr => $view:expr),*]) => {{
				$(
					let view: &$T = $view;
					let exp = equiv($kind, $v.as_str(), view.as_str());
					if let Ok(got) = guard(|| $v == view) {
						ensure!(got == exp, format!("self-view:{}", $name), "{:?} == its own {} {:?} is {}, the documented equivalence says {}", $v.as_str(), $name, view.as_str(), got, exp);
					}
					if let Ok(got) = guard(|| view == $v) {
						ensure!(got == exp, format!("self-view-rev:{}", $name), "{} {:?} == the value {:?} it was taken from is {}, the documented equivalence says {}", $name, view.as_str(), $v.as_str(), got, exp);
					}
					cx.obs(2);
				)*
			}};
		}
		macro_rules! aliased {
			($T:ty, $kind:expr) => {{
				if let Ok(v) = <$T>::new(t.a.as_str()) {
					for k in crate::gen::valid_prefix_cuts(t.a.as_str(), 4, |p| <$T>::new(p).is_ok()) {
						let w = <$T>::new(&t.a.as_str()[..k]).unwrap();
						self_views!($T, v, $kind, ["prefix view" => w]);
					}
				}
			}};
		}
		match t.kind {
			Kind::Authority => aliased!(Authority, Kind::Authority),
			Kind::Segment => aliased!(Segment, Kind::Segment),
			Kind::Host => aliased!(Host, Kind::Host),
			Kind::UserInfo => aliased!(UserInfo, Kind::UserInfo),
			Kind::Query => aliased!(Query, Kind::Query),
			Kind::Fragment => aliased!(Fragment, Kind::Fragment),
			Kind::Reference => aliased!(RiRef, Kind::Reference),
			Kind::Full => aliased!(Ri, Kind::Full),
			Kind::Path => aliased!(Path, Kind::Path),
			_ => {}
		}
		match t.kind {
			Kind::Reference => {
				go!(RiRef);
				cross(t, cx)?;
				let r = RiRef::new(t.a.as_str()).unwrap();
				self_views!(RiRef, r, Kind::Reference, ["base()" => r.base()]);
			}
			Kind::Full => {
				go!(Ri);
				cross(t, cx)?;
				let r = Ri::new(t.a.as_str()).unwrap();
				self_views!(Ri, r, Kind::Full, ["base()" => r.base()]);
			}
			Kind::Path if Path::new(t.a.as_str()).is_ok() => {
				go!(Path);
				let p = Path::new(t.a.as_str()).unwrap();
				self_views!(Path, p, Kind::Path, ["directory()" => p.directory(), "parent_or_empty()" => p.parent_or_empty()]);
			}
			Kind::Authority => go!(Authority),
			Kind::Path => go!(Path),
			Kind::Segment => go!(Segment),
			Kind::Host => go!(Host),
			Kind::UserInfo => go!(UserInfo),
			Kind::Query => go!(Query),
			Kind::Fragment => go!(Fragment),
			Kind::Scheme => go!(Scheme),
			Kind::Port => go!(Port),
		}
		Ok(true)
	}
}

impl Prop for C07 {
	type Case = Triple;
	const ID: &'static str = "C07";

	fn rule() -> String {
		"cases = (family, kind in {reference, full, authority, path, segment, host, user info, query, fragment, scheme, port}, triple a,b,c). 70 %: b and c are chains of 0-3 metamorphic variants of a (equivalence-preserving: pct-encode any character with random hex case, decode an unreserved escape, flip hex case, insert './' or 'x/../', '/.' for '/'; near misses: scheme case, appended '/', port leading zero, absent<->empty query/fragment/userinfo/port, host case, swapped/added segment); 30 %: independent values. %XX classes include ill-formed UTF-8 (lone continuation/lead, truncated, overlong, surrogate, > F4) in half of the cases. Oracle: documented equivalence computed on Appendix-B components with octet decoding, BOTH directions on the three pairs, plus != consistency, reflexivity, symmetry, transitivity, and all 23 cross-type == impls of the family agreeing with the same-type verdict. Every comparison runs under catch_unwind. Non-trivial: texts differ but the oracle says equal, or the oracle says unequal and the texts are within edit distance 2.".into()
	}

	fn assumptions() -> Vec<String> {
		vec!["the expected verdict is computed by R-EQUIV from the two texts, never from how the variant was produced".into()]
	}

	fn cases(tier: Tier) -> u64 {
		tier.pick(300_000, 8_000_000)
	}

	fn strategy(_tier: Tier) -> BoxedStrategy<Triple> {
		triple(true)
	}

	fn enumerate(_tier: Tier, shard: usize, nshards: usize, f: &mut dyn FnMut(Triple, bool) -> bool) -> Vec<&'static str> {
		crate::props::cmpgen::long_near_misses(shard, nshards, f)
	}

	fn check(t: &Triple, cx: &mut Ctx) -> Result<(), Failure> {
		if t.fam == Fam::Uri && !(t.a.is_ascii() && t.b.is_ascii() && t.c.is_ascii()) {
			cx.class("skipped-nonascii-uri");
			return Ok(());
		}
		let judged = by_fam!(t.fam, check(t, cx))?;
		if !judged {
			cx.class("rejected-by-library");
			return Ok(());
		}
		cx.class("judged");
		cx.class(t.kind.label());
		let mut nt = false;
		for (x, y) in [(&t.a, &t.b), (&t.b, &t.c), (&t.a, &t.c)] {
			let e = equiv(t.kind, x, y);
			if e && x != y {
				nt = true;
				cx.class("equal-but-textually-different");
			}
			if !e && near(x, y) {
				nt = true;
				cx.class("near-miss");
			}
		}
		cx.nt_if(nt);
		cx.class_if(!all_utf8(t.kind, &t.a) || !all_utf8(t.kind, &t.b), "non-utf8-octets");
		Ok(())
	}

	fn floors(_tier: Tier) -> Vec<(&'static str, u64)> {
		let mut v: Vec<(&'static str, u64)> = crate::props::cmpgen::KINDS.iter().map(|k| (k.label(), 5_000)).collect();
		v.extend([("judged", 150_000), ("equal-but-textually-different", 50_000), ("near-miss", 30_000), ("non-utf8-octets", 10_000), ("cross-type:full", 10_000)]);
		v
	}
}
