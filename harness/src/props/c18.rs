//! C18 — data URL views are coherent and reassemble the original.

use std::str::FromStr;

use proptest::collection::vec;
use proptest::prelude::*;
use proptest::sample::select;
use serde::{Deserialize, Serialize};

use iref::uri::data::{DataUrl, DataUrlBuf, InvalidDataUrl};

use crate::engine::{guard, Ctx, Failure, Prop, Tier};
use crate::gen::{self, Fam, Opt};
use crate::oracle::base64;
use crate::props::c01::Input;
use crate::{ensure, fail};

#[derive(Debug, Clone, Hash, Serialize, Deserialize)]
pub struct Case {
	pub input: Input,
}

pub struct C18;

fn same(a: &[u8], b: &[u8]) -> bool {
	a.as_ptr() == b.as_ptr() && a.len() == b.len()
}

fn g<T>(what: &str, f: impl FnOnce() -> T) -> Result<T, Failure> {
	guard(f).map_err(|p| Failure::new(format!("panic:{what}:{}", p.loc), format!("{what} panicked at {}: {}", p.loc, crate::engine::truncate(&p.msg, 150))))
}

fn check_case(case: &Case, cx: &mut Ctx) -> Result<(), Failure> {
	let bytes = case.input.bytes();
	let shown = String::from_utf8_lossy(bytes).to_string();
	// constructors agree
	let b = g("DataUrl::new", || DataUrl::new(bytes).map(|d| d.as_str().to_string()).map_err(|InvalidDataUrl(p)| same(p, bytes)))?;
	let o = g("DataUrlBuf::new", || DataUrlBuf::new(bytes.to_vec()).map_err(|InvalidDataUrl(p)| p == bytes))?;
	ensure!(b.is_ok() == o.is_ok(), "constructors-disagree", "{:?}: DataUrl::new accepts = {}, DataUrlBuf::new accepts = {}", shown, b.is_ok(), o.is_ok());
	cx.obs(2);
	if let Ok(s) = std::str::from_utf8(bytes) {
		let r1 = g("from_string", || DataUrlBuf::from_string(s.to_string()).map(|_| ()).map_err(|InvalidDataUrl(p)| p == s))?;
		let r2 = g("FromStr", || DataUrlBuf::from_str(s).map(|_| ()).map_err(|InvalidDataUrl(p)| p == s))?;
		let r3 = g("TryFrom<String>", || DataUrlBuf::try_from(s.to_string()).map(|_| ()).map_err(|InvalidDataUrl(p)| p == s))?;
		let r4 = g("TryFrom<&str>", || <&DataUrl>::try_from(s).map(|_| ()).map_err(|InvalidDataUrl(p)| p == s))?;
		let r5 = g("DataUrl::new(&str)", || DataUrl::new(s).map(|_| ()).map_err(|InvalidDataUrl(p)| same(p.as_bytes(), bytes)))?;
		for (name, r) in [("from_string", r1), ("FromStr", r2), ("TryFrom<String>", r3), ("TryFrom<&str>", r4), ("DataUrl::new(&str)", r5)] {
			ensure!(r.is_ok() == b.is_ok(), format!("constructors-disagree:{name}"), "{:?}: {name} accepts = {}, DataUrl::new accepts = {}", shown, r.is_ok(), b.is_ok());
			if let Err(handed_back) = r {
				ensure!(handed_back, format!("error-payload:{name}"), "{:?}: {name} does not hand the input back in its error", shown);
			}
			cx.obs(1);
		}
	}
	// serde routes are constructors too: the owned target accepts exactly what the checked constructor
	// accepts; the borrowed target (zero-copy, so it may refuse a JSON string with escapes) never accepts more
	if let Ok(s) = std::str::from_utf8(bytes) {
		let json = serde_json::to_string(s).unwrap();
		let so = g("serde owned", || serde_json::from_str::<DataUrlBuf>(&json).map(|d| d.as_str().to_string()).map_err(|e| e.to_string()))?;
		ensure!(so.is_ok() == b.is_ok(), "constructors-disagree:serde-owned", "{:?}: deserialising into DataUrlBuf accepts = {}, DataUrl::new accepts = {}", shown, so.is_ok(), b.is_ok());
		if let Ok(t) = &so {
			ensure!(t == s, "text-changed:serde-owned", "{:?}: deserialised DataUrlBuf has text {:?}", shown, t);
		}
		let sb = g("serde borrowed", || serde_json::from_str::<&DataUrl>(&json).map(|d| d.as_str().to_string()).map_err(|e| e.to_string()))?;
		if let Ok(t) = &sb {
			ensure!(b.is_ok(), "constructors-disagree:serde-borrowed", "{:?}: deserialising into &DataUrl accepts what DataUrl::new rejects", shown);
			ensure!(t == s, "text-changed:serde-borrowed", "{:?}: deserialised &DataUrl has text {:?}", shown, t);
		} else if json.len() == s.len() + 2 {
			ensure!(b.is_err(), "constructors-disagree:serde-borrowed", "{:?}: deserialising the escape-free JSON string into &DataUrl fails ({:?}) although DataUrl::new accepts", shown, sb);
		}
		cx.obs(2);
	}
	match (&b, &o) {
		(Err(pb), Err(po)) => {
			ensure!(*pb, "error-payload:new", "{:?}: DataUrl::new does not hand back the input (same address) in its error", shown);
			ensure!(*po, "error-payload:buf-new", "{:?}: DataUrlBuf::new does not hand back the input in its error", shown);
			cx.class("rejected");
			cx.class_if(bytes.starts_with(b"data:"), "rejected-data-scheme");
			cx.nt_if(bytes.starts_with(b"data:"));
			return Ok(());
		}
		_ => {}
	}
	let text = b.clone().unwrap();
	let ob = o.unwrap();
	ensure!(text.as_bytes() == bytes, "text-changed", "{:?}: accepted value has text {:?}", shown, text);
	// accept => valid URI of the stated shape
	ensure!(iref::Uri::new(bytes).is_ok(), "accepted-not-a-uri", "{:?} accepted as data URL but it is not a valid URI", shown);
	let rest = match text.strip_prefix("data:") {
		Some(r) => r,
		None => fail!("accepted-without-data-scheme", "{:?} accepted as data URL", shown),
	};
	let comma = match rest.find(',') {
		Some(i) => i,
		None => fail!("accepted-without-comma", "{:?} accepted as data URL without a ','", shown),
	};
	let head = &rest[..comma];
	let (exp_media, exp_b64) = match head.strip_suffix(";base64") {
		Some(m) => (m, true),
		None => (head, false),
	};
	ensure!(!exp_media.contains(';') && !exp_media.contains(','), "accepted-bad-shape", "{:?} accepted although the text before ',' is not media-type [';base64']", shown);
	let exp_data = &rest[comma + 1..];
	// borrowed accessors (they re-scan the text; run under guard: an unbounded loop is caught by the watchdog)
	let d = DataUrl::new(bytes).unwrap();
	let bm = g("media_type", || d.media_type().map(|s| s.to_string()))?;
	let bb = g("is_base_64_encoded", || d.is_base_64_encoded())?;
	let bd = g("encoded_data", || d.encoded_data().to_string())?;
	let bp = g("parts", || {
		let p = d.parts();
		(p.media_type.map(|s| s.to_string()), p.base_64, p.data.to_string())
	})?;
	let om = ob.media_type().map(|s| s.to_string());
	let obb = ob.is_base_64_encoded();
	let od = ob.encoded_data().to_string();
	let op = {
		let p = ob.parts();
		(p.media_type.map(|s| s.to_string()), p.base_64, p.data.to_string())
	};
	let exp = (if exp_media.is_empty() { None } else { Some(exp_media.to_string()) }, exp_b64, exp_data.to_string());
	ensure!((bm.clone(), bb, bd.clone()) == (om.clone(), obb, od.clone()), "borrowed-vs-owned", "{:?}: borrowed form reports (media, base64, data) = {:?}, owned form {:?}", shown, (&bm, bb, &bd), (&om, obb, &od));
	ensure!(bp == (bm.clone(), bb, bd.clone()), "parts-vs-accessors:borrowed", "{:?}: borrowed parts() = {:?}, accessors = {:?}", shown, bp, (&bm, bb, &bd));
	ensure!(op == (om.clone(), obb, od.clone()), "parts-vs-accessors:owned", "{:?}: owned parts() = {:?}, accessors = {:?}", shown, op, (&om, obb, &od));
	ensure!((bm.clone(), bb, bd.clone()) == exp, "views-vs-text", "{:?}: views report {:?}, the text has (media, base64, data) = {:?}", shown, (&bm, bb, &bd), exp);
	let re = format!("data:{}{},{}", bm.clone().unwrap_or_default(), if bb { ";base64" } else { "" }, bd);
	ensure!(re == text, "reassembly", "{:?}: views reassemble to {:?}", shown, re);
	// through the deref'd owned form too
	let dd: &DataUrl = &ob;
	ensure!(dd.media_type().map(|s| s.to_string()) == bm && dd.is_base_64_encoded() == bb && dd.encoded_data() == bd, "deref-vs-owned", "{:?}: DataUrlBuf deref'd to DataUrl reports different views", shown);
	ensure!(d.as_uri().as_bytes() == bytes && d.as_str() == text, "as_uri-text", "{:?}: as_uri()/as_str() differ from the text", shown);
	// every other view of the same value: Deref, AsRef, Borrow, serialisation
	{
		let u1: &iref::Uri = &**d;
		let u2: &iref::Uri = AsRef::<iref::Uri>::as_ref(d);
		let u3: &iref::Uri = AsRef::<iref::Uri>::as_ref(&ob);
		let d2: &DataUrl = AsRef::<DataUrl>::as_ref(d);
		let d3: &DataUrl = AsRef::<DataUrl>::as_ref(&ob);
		let d4: &DataUrl = std::borrow::Borrow::<DataUrl>::borrow(&ob);
		for (name, got) in [("Deref", u1.as_bytes()), ("AsRef<Uri>", u2.as_bytes()), ("AsRef<Uri> (owned)", u3.as_bytes()), ("AsRef<DataUrl>", d2.as_bytes()), ("AsRef<DataUrl> (owned)", d3.as_bytes()), ("Borrow<DataUrl>", d4.as_bytes())] {
			ensure!(got == bytes, format!("view-text:{name}"), "{:?}: the {name} view has text {:?}", shown, String::from_utf8_lossy(got));
		}
		ensure!(d3.media_type().map(|s| s.to_string()) == bm && d4.encoded_data() == bd, "view-parts", "{:?}: AsRef/Borrow views of the owned form report different parts", shown);
		// clone_from in both directions with values whose delimiters sit elsewhere
		for partner in ["data:,", "data:text/plain;base64,QUJD", "data:a/b,hello%20world", "data:;base64,", "data:application/octet-stream,%00"] {
			let pb = DataUrlBuf::new(partner.as_bytes().to_vec()).map_err(|_| Failure::new("harness", format!("partner {:?} rejected", partner)))?;
			let mut x = pb.clone();
			x.clone_from(&ob);
			let got = g("accessors after clone_from", || (x.as_str().to_string(), x.media_type().map(|s| s.to_string()), x.is_base_64_encoded(), x.encoded_data().to_string()))?;
			ensure!(got == (text.clone(), bm.clone(), bb, bd.clone()), "clone_from", "{:?}: a DataUrlBuf holding {:?} after clone_from(this value) reports (text, media, base64, data) = {:?}", shown, partner, got);
			let mut y = ob.clone();
			y.clone_from(&pb);
			let pd = DataUrl::new(partner.as_bytes()).unwrap();
			let got = g("accessors after clone_from", || (y.as_str().to_string(), y.media_type().map(|s| s.to_string()), y.is_base_64_encoded(), y.encoded_data().to_string()))?;
			let want = (partner.to_string(), pd.media_type().map(|s| s.to_string()), pd.is_base_64_encoded(), pd.encoded_data().to_string());
			ensure!(got == want, "clone_from", "{:?}: this value after clone_from({:?}) reports {:?}, expected {:?}", shown, partner, got, want);
			cx.obs(2);
		}
		let json = serde_json::to_string(text.as_str()).unwrap();
		let j1 = serde_json::to_string(d).map_err(|e| Failure::new("serialize", e.to_string()))?;
		let j2 = serde_json::to_string(&ob).map_err(|e| Failure::new("serialize-owned", e.to_string()))?;
		ensure!(j1 == json && j2 == json, "serialize-text", "{:?}: serialises to {} / {} instead of {}", shown, j1, j2, json);
		cx.obs(10);
	}
	cx.obs(10);
	// decoded data
	let dec_b = g("decoded_data", || d.decoded_data().map(|c| c.to_vec()).map_err(|e| e.to_string()))?;
	let dec_o = g("decoded_data (owned)", || ob.decoded_data().map(|c| c.to_vec()).map_err(|e| e.to_string()))?;
	ensure!(dec_b == dec_o, "decoded-borrowed-vs-owned", "{:?}: decoded_data() differs between borrowed ({:?}) and owned ({:?})", shown, dec_b, dec_o);
	if !exp_b64 {
		ensure!(dec_b.as_deref() == Ok(exp_data.as_bytes()), "decoded-plain", "{:?}: not flagged base64 but decoded_data() = {:?}, expected the data bytes", shown, dec_b);
		cx.class("accepted-plain");
	} else {
		let lenient = base64::decode_lenient(exp_data);
		if let Some(bts) = &lenient {
			if base64::encode(bts) == exp_data {
				ensure!(dec_b.as_deref() == Ok(bts.as_slice()), "decoded-base64-canonical", "{:?}: data is the canonical base64 of {:02x?} but decoded_data() = {:?}", shown, bts, dec_b);
				cx.class("accepted-base64-canonical");
			} else {
				cx.class("accepted-base64-non-canonical");
			}
		} else {
			cx.class("accepted-base64-undecodable");
		}
		if let Ok(x) = &dec_b {
			ensure!(Some(x) == lenient.as_ref(), "decoded-base64-wrong", "{:?}: decoded_data() = Ok({:02x?}) but RFC 4648 decoding of {:?} gives {:?}", shown, x, exp_data, lenient);
		}
	}
	cx.obs(2);
	cx.class("accepted");
	cx.nt();
	cx.class_if(exp_media.contains('#') || exp_data.contains('#'), "hash-in-text");
	cx.class_if(exp_data.contains(';') || exp_data.contains(','), "delimiter-in-data");
	Ok(())
}

fn data_url() -> BoxedStrategy<String> {
	let media = prop_oneof![
		3 => select(vec!["", "text/plain", "image/png", "a/b+c", "x", "text/html#f", "a/b.c-d_e!$&^", "APPLICATION/JSON", "1/2"]).prop_map(|s| s.to_string()),
		1 => "[a-zA-Z0-9/!#$&+^_.-]{0,12}".prop_map(|s| s),
		1 => select(vec!["text/plain;charset=utf-8", "a;b", "a,b", "a b", "a%20b", "a?b", "a:b", "a=b", "\u{e9}"]).prop_map(|s| s.to_string()),
	];
	let b64flag = select(vec!["", ";base64", "", ";base64", ";base6", ";base64;", ";BASE64", ";base64;base64", ";", ";base64x"]).prop_map(|s| s.to_string());
	let comma = select(vec![",", ",", ",", ",", "", ",,"]).prop_map(|s| s.to_string());
	let data = prop_oneof![
		3 => vec(any::<u8>(), 0..12).prop_map(|b| base64::encode(&b)),
		1 => vec(any::<u8>(), 0..12).prop_map(|b| base64::encode(&b).trim_end_matches('=').to_string()),
		1 => vec(any::<u8>(), 1..12).prop_map(|b| { let mut s = base64::encode(&b); s.push('='); s }),
		1 => vec(any::<u8>(), 1..12).prop_map(|b| { let s = base64::encode(&b); let mut c: Vec<char> = s.chars().collect(); let n = c.len(); if n >= 2 && c[n-1] == '=' { c[n-2] = if c[n-2] == 'B' { 'C' } else { 'B' } } c.into_iter().collect() }),
		2 => select(vec!["", "hello", "a,b;c", "a;base64,b", "x#frag,y", "%41%2C", "a/b?c=d", "A===", "=", "QQ==", "QR==", "Q", "QQ=", "QUJD", "QUJ", "Q U", "QQ==QQ==", "-_-_"]).prop_map(|s| s.to_string()),
		1 => "[A-Za-z0-9+/=]{0,16}".prop_map(|s| s),
		1 => "[ -~]{0,10}".prop_map(|s| s),
	];
	let scheme = select(vec!["data:", "data:", "data:", "data:", "DATA:", "dat:", "data", "data:/", "data://h/"]).prop_map(|s| s.to_string());
	(scheme, media, b64flag, comma, data).prop_map(|(s, m, f, c, d)| format!("{s}{m}{f}{c}{d}")).boxed()
}

impl Prop for C18 {
	type Case = Case;
	const ID: &'static str = "C18";

	fn rule() -> String {
		"cases = byte strings: (a) data-URL-shaped generator: scheme {data:, DATA:, dat:, ...} + media type (tokens incl. '#', '/', '+', parameter-like text with ';' ',' '=' space) + base64 flag (correct, misspelt, truncated, repeated, upper-case) + comma (present, missing, doubled) + data (canonical base64 of random bytes, unpadded, over-padded, non-zero trailing bits, fixed tricky strings with ',' ';' '#', arbitrary printable text); (b) 1-3 edit mutants of (a); (c) other valid URIs; (d) random bytes. Oracle: borrowed and owned constructors (+ from_string, FromStr, TryFrom x2) accept the same inputs and hand the input back on rejection; accept => valid URI and the text is 'data:' m [';base64'] ',' d with m free of ';' and ','; borrowed views (re-scanning) == owned views (stored offsets) == parts() == the text's own split, and reassemble the text; decoded_data: plain => data bytes; canonical base64 of B => Ok(B); any Ok(x) => x equals the harness's RFC 4648 decoding. Hangs are caught by the watchdog (exit 2). Non-trivial: accepted, or rejected although it starts with 'data:'.".into()
	}

	fn cases(tier: Tier) -> u64 {
		tier.pick(300_000, 8_000_000)
	}

	fn strategy(_tier: Tier) -> BoxedStrategy<Case> {
		let clean = (
			select(vec!["", "text/plain", "image/png", "a/b+c", "x", "text/html#f", "a/b.c-d_e!$&^", "1/2", "#", "a#b/c"]),
			any::<bool>(),
			prop_oneof![
				3 => vec(any::<u8>(), 0..16).prop_map(|b| base64::encode(&b)),
				2 => select(vec!["", "hello", "a,b;c", "a;base64,b", "x#frag,y", "%41%2C", "a/b?c=d", ";base64,QQ==", ",", ";"]).prop_map(|s| s.to_string()),
				1 => "[A-Za-z0-9+/]{0,12}={0,2}".prop_map(|s| s),
			],
		)
			.prop_map(|(m, b64, d)| Case { input: Input::Text(format!("data:{m}{},{d}", if b64 { ";base64" } else { "" })) });
		let shaped = data_url().prop_map(|s| Case { input: Input::Text(s) });
		// long media types (around 255 bytes) and long payloads with inner padding on block boundaries
		let long = (select(vec![200usize, 250, 254, 255, 256, 257, 262, 263, 264, 300, 1000]), any::<bool>(), select(vec![1usize, 2, 4, 3070, 3071, 3072, 6142, 6143]), any::<bool>(), vec(any::<u8>(), 0..8)).prop_map(|(ml, b64, n1, two, tail)| {
			let media = format!("a/{}", "m".repeat(ml.saturating_sub(2)));
			let mut data = base64::encode(&vec![0x5au8; n1]);
			if two {
				data.push_str(&base64::encode(if tail.is_empty() { b"tail" } else { &tail }));
			}
			Case { input: Input::Text(format!("data:{media}{},{data}", if b64 { ";base64" } else { "" })) }
		});
		let mutants = (data_url(), vec(gen::edit(), 1..=3)).prop_map(|(s, e)| Case { input: Input::Text(gen::apply_edits(&s, &e)) });
		let other = gen::reference(Opt::new(Fam::Uri), true).prop_map(|s| Case { input: Input::Text(s) });
		let bytes = (data_url(), vec(any::<u8>(), 0..6), any::<u16>()).prop_map(|(s, junk, at)| {
			let mut b = s.into_bytes();
			let k = ((at as usize) * (b.len() + 1)) >> 16;
			for (i, x) in junk.iter().enumerate() {
				b.insert(k + i, *x)
			}
			Case { input: Input::from_bytes(b) }
		});
		prop_oneof![8 => clean, 8 => shaped, 4 => mutants, 2 => other, 2 => bytes, 1 => long].boxed()
	}

	fn check(case: &Case, cx: &mut Ctx) -> Result<(), Failure> {
		check_case(case, cx)
	}

	fn enumerate(tier: Tier, shard: usize, nshards: usize, f: &mut dyn FnMut(Case, bool) -> bool) -> Vec<&'static str> {
		// every sequence of <= 5 (thorough: 6) tokens after "data:" (repeated and misplaced ";base64", ",", ";")
		let tokens = [";base64", ";", ",", "a/b", "x", "=", "base64", "#", "%2C", "Zg==", ":"];
		let maxlen = tier.pick(5, 6);
		let k = tokens.len() as u64;
		let mut i = 0u64;
		for len in 0..=maxlen {
			for mut m in 0..k.pow(len as u32) {
				i += 1;
				let mine = i as usize % nshards == shard;
				let mut t = String::from("data:");
				for _ in 0..len {
					if mine {
						t.push_str(tokens[(m % k) as usize]);
					}
					m /= k;
				}
				if mine && !f(Case { input: Input::from_bytes(t.into_bytes()) }, true) {
					return vec![];
				}
			}
		}
		// long payloads (block-wise decoders and validators): every header shape (incl. the forms in which the
		// comma sits inside an authority) x payload lengths around 64 KiB / 128 KiB, and base64 payloads with a padded
		// quad ENDING exactly on a block boundary (4 .. 128 KiB) followed by more symbols
		{
			let mut gi = 0usize;
			let headers = ["data:,", "data:a/b,", "data:;base64,", "data:a/b;base64,", "data://m,x:y", "data://m;base64,a@b@c", "data://u@h:1/p,", "data:/p?q,", "data:a/b#f,", "data://[::1]:80,", "data://m,%41:pw", "data://m,u@h/"];
			for h in headers {
				for n in [0usize, 100, 4096, 65_530, 65_535, 65_536, 65_537, 70_000, 131_072, 131_080, 200_000] {
					for fill in ["a", "A", "QUJD"] {
						gi += 1;
						if gi % nshards != shard {
							continue;
						}
						let mut t = String::from(h);
						while t.len() - h.len() + fill.len() <= n {
							t.push_str(fill);
						}
						if !f(Case { input: Input::from_bytes(t.into_bytes()) }, true) {
							return vec![];
						}
					}
				}
			}
			for boundary in [4usize, 8, 64, 1024, 4096, 8192, 16_384, 32_768, 65_536, 131_072] {
				for (pad, after) in [("QQ==", 0usize), ("QQ==", 1), ("QQ==", 5), ("QUI=", 1), ("QUI=", 300), ("QQ==", 20_000)] {
					gi += 1;
					if gi % nshards != shard {
						continue;
					}
					let t = format!("data:;base64,{}{}{}", "QUJD".repeat(boundary / 4 - 1), pad, "QUJD".repeat(after));
					if !f(Case { input: Input::from_bytes(t.into_bytes()) }, true) {
						return vec![];
					}
				}
			}
		}
		vec!["12 header shapes (incl. authority forms) x payloads of 0 .. 200 000 bytes x 3 fillers; base64 payloads with a padded quad ending on every block boundary 4 B .. 128 KiB followed by 0 .. 80 000 more symbols", "every sequence of <= 5 (thorough 6) tokens over {;base64 ; , a/b x = base64 # %2C Zg== :} after 'data:'"]
	}

	fn floors(_tier: Tier) -> Vec<(&'static str, u64)> {
		vec![
			("accepted", 60_000),
			("rejected-data-scheme", 50_000),
			("accepted-plain", 20_000),
			("accepted-base64-canonical", 10_000),
			("accepted-base64-non-canonical", 3_000),
			("accepted-base64-undecodable", 3_000),
			("hash-in-text", 2_000),
			("delimiter-in-data", 3_000),
		]
	}
}
