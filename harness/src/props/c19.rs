//! C19 — percent-decoded views of components are total and faithful.

use proptest::collection::vec;
use proptest::prelude::*;
use proptest::sample::select;
use serde::{Deserialize, Serialize};

use crate::engine::{guard, Ctx, Failure, Prop, Tier};
use crate::gen::{self, Fam};
use crate::oracle::pct;
use crate::{both_families, by_fam, ensure, soft_fail};

#[derive(Debug, Clone, Copy, Hash, PartialEq, Eq, Serialize, Deserialize)]
pub enum CKind {
	UserInfo,
	Host,
	Segment,
	Query,
	Fragment,
}

pub const CKINDS: [CKind; 5] = [CKind::UserInfo, CKind::Host, CKind::Segment, CKind::Query, CKind::Fragment];

#[derive(Debug, Clone, Hash, Serialize, Deserialize)]
pub struct Case {
	pub fam: Fam,
	pub kind: CKind,
	pub text: String,
	/// obtain the component from an enclosing URI/IRI instead of the stand-alone constructor
	pub embedded: bool,
}

pub struct C19;

pub const PANIC_SIG: &str = "pct-view-panics-on-non-utf8-octets";
pub const ALIAS_SIG: &str = "pct-view-equates-ill-formed-octets-with-text";

/// Lenient decoding used only to build "what a sloppy decoder would say"
/// candidates: accepts overlong forms and surrogates, yields the aliased text.
fn sloppy(octets: &[u8]) -> Option<String> {
	let mut out = String::new();
	let mut i = 0;
	while i < octets.len() {
		let b = octets[i];
		let (n, init) = if b < 0x80 {
			(0, b as u32)
		} else if b & 0xE0 == 0xC0 {
			(1, (b & 0x1F) as u32)
		} else if b & 0xF0 == 0xE0 {
			(2, (b & 0x0F) as u32)
		} else if b & 0xF8 == 0xF0 {
			(3, (b & 0x07) as u32)
		} else {
			return None;
		};
		if i + n >= octets.len() + 0 && n > 0 && i + n > octets.len() - 1 {
			return None;
		}
		let mut cp = init;
		for k in 1..=n {
			let c = *octets.get(i + k)?;
			if c & 0xC0 != 0x80 {
				return None;
			}
			cp = (cp << 6) | (c & 0x3F) as u32;
		}
		out.push(char::from_u32(cp)?);
		i += n + 1;
	}
	Some(out)
}

both_families! {
	fn judge(case: &Case, view: &pct_str::PctStr, cx: &mut Ctx) -> Result<(), Failure> {
		let text = case.text.as_str();
		let octets = pct::decode(text);
		let got: Vec<u8> = guard(|| view.bytes().collect()).map_err(|p| Failure::new(format!("bytes-panics:{}", p.loc), format!("{:?}: as_pct_str().bytes() panicked: {}", text, p.msg)))?;
		ensure!(got == octets, "octets", "{:?}: as_pct_str().bytes() = {:02x?}, expected {:02x?}", text, got, octets);
		ensure!(view.as_str() == text, "view-text", "{:?}: as_pct_str().as_str() = {:?}", text, view.as_str());
		cx.obs(2);
		match std::str::from_utf8(&octets) {
			Ok(s) => {
				let chars: String = guard(|| view.chars().collect()).map_err(|p| Failure::new(format!("chars-panics-wellformed:{}", p.loc), format!("{:?}: chars() panicked on well-formed octets: {}", text, p.msg)))?;
				ensure!(chars == s, "chars", "{:?}: chars() = {:?}, expected {:?}", text, chars, s);
				let len = guard(|| view.len()).map_err(|p| Failure::new(format!("len-panics-wellformed:{}", p.loc), format!("{:?}: len() panicked: {}", text, p.msg)))?;
				ensure!(len == s.chars().count(), "len", "{:?}: len() = {}, expected {}", text, len, s.chars().count());
				let dec = guard(|| view.decode()).map_err(|p| Failure::new(format!("decode-panics-wellformed:{}", p.loc), format!("{:?}: decode() panicked: {}", text, p.msg)))?;
				ensure!(dec == s, "decode", "{:?}: decode() = {:?}, expected {:?}", text, dec, s);
				let eq = guard(|| *view == *s).map_err(|p| Failure::new(format!("eq-panics-wellformed:{}", p.loc), format!("{:?}: == str panicked: {}", text, p.msg)))?;
				ensure!(eq, "eq-str", "{:?}: view != its own decoding {:?}", text, s);
				// near misses
				let mut longer = s.to_string(); longer.push('x');
				let shorter: String = { let mut c: Vec<char> = s.chars().collect(); c.pop(); c.into_iter().collect() };
				let flipped: String = { let mut c: Vec<char> = s.chars().collect(); if let Some(l) = c.last_mut() { *l = if *l == 'y' { 'z' } else { 'y' } } c.into_iter().collect() };
				for m in [longer, shorter, flipped] {
					if m != s {
						let e = guard(|| *view == *m.as_str()).unwrap_or(false);
						ensure!(!e, "eq-str-near-miss", "{:?}: view (decoding {:?}) compares equal to {:?}", text, s, m);
					}
				}
				cx.obs(7);
				cx.class("well-formed-octets");
			}
			Err(_) => {
				cx.class("ill-formed-octets");
				let mut panicked = vec![];
				let c = guard(|| view.chars().count());
				if let Err(p) = &c { panicked.push(format!("chars() at {}", p.loc)) }
				let l = guard(|| view.len());
				if let Err(p) = &l { panicked.push(format!("len() at {}", p.loc)) }
				let d = guard(|| view.decode());
				if let Err(p) = &d { panicked.push(format!("decode() at {}", p.loc)) }
				// candidates a sloppy decoder would equate it with
				let mut cands: Vec<String> = vec![String::from_utf8_lossy(&octets).to_string()];
				if let Some(s) = sloppy(&octets) { cands.push(s) }
				if let Ok(dd) = &d { cands.push(dd.clone()) }
				let mut aliased = vec![];
				for cand in &cands {
					match guard(|| *view == *cand.as_str()) {
						Ok(true) => aliased.push(cand.clone()),
						Ok(false) => {}
						Err(p) => panicked.push(format!("== str at {}", p.loc)),
					}
				}
				cx.obs(5);
				if panicked.iter().any(|p| !p.ends_with("pct-str-2.0.0/src/lib.rs:200")) {
					return Err(Failure::new("pct-view-panics-elsewhere", format!("{:?} (octets {:02x?}): {} panicked", text, octets, panicked.join(", "))));
				}
				if !panicked.is_empty() {
					soft_fail!(cx, PANIC_SIG, "{:?} (octets {:02x?}, not well-formed UTF-8): {} panicked - the view is not total", text, octets, panicked.join(", "));
				}
				if !aliased.is_empty() {
					soft_fail!(cx, ALIAS_SIG, "{:?} (octets {:02x?}, not well-formed UTF-8) compares equal to the well-formed text {:?}", text, octets, aliased);
				}
			}
		}
		Ok(())
	}

	pub fn check(case: &Case, cx: &mut Ctx) -> Result<bool, Failure> {
		let t = case.text.as_str();
		macro_rules! go {
			($T:ty, $TBuf:ty, $wrap:expr, |$r:ident| $get:expr) => {{
				if <$T>::new(t).is_err() { return Ok(false) }
				if case.embedded {
					let wholes: Vec<String> = $wrap;
					for whole in wholes {
						let $r = match Ri::new(whole.as_str()) { Ok(r) => r, Err(_) => return Ok(false) };
						let comp: &$T = match $get { Some(c) => c, None => return Err(Failure::new("embedded-component-missing", format!("{:?} embedded in {:?}: the accessor returns nothing", t, whole))) };
						// a valid component contains none of the delimiters that could split it, so it must come back unchanged
						ensure!(comp.as_str() == t, "embedded-component-differs", "{:?} embedded in {:?} is read back as {:?}", t, whole, comp.as_str());
						let v = guard(|| comp.as_pct_str()).map_err(|p| Failure::new(format!("as_pct_str-panics:{}", p.loc), format!("{:?}: as_pct_str() panicked: {}", t, p.msg)))?;
						judge(case, v, cx)?;
					}
				} else {
					let comp = match <$T>::new(t) { Ok(c) => c, Err(_) => return Ok(false) };
					let v = guard(|| comp.as_pct_str()).map_err(|p| Failure::new(format!("as_pct_str-panics:{}", p.loc), format!("{:?}: as_pct_str() panicked: {}", t, p.msg)))?;
					judge(case, v, cx)?;
					// Deref
					let dv: &pct_str::PctStr = &**comp;
					ensure!(dv.as_str() == t, "deref-view", "{:?}: Deref view is {:?}", t, dv.as_str());
				}
			}};
		}
		match case.kind {
			CKind::UserInfo => {
				go!(UserInfo, UserInfoBuf, vec![format!("s://{t}@h/p"), format!("http://{t}@[::1]:80"), format!("s://{t}@:1#/f"), format!("s://{t}@12345"), format!("s://{t}@{}/p", "h".repeat(70)), format!("//{}{t}@{}:80", "", "long-host-name.example.org.long-host-name.example.org.long-host-name.example")], |r| r.authority().and_then(|a| a.user_info()));
				if !case.embedded {
					let ob = UserInfoBuf::new(t.into()).unwrap().into_pct_string();
					ensure!(ob.as_str() == t, "into_pct_string", "{:?}: into_pct_string() = {:?}", t, ob.as_str());
				}
			}
			CKind::Host => {
				go!(Host, HostBuf, vec![format!("s://u@{t}:1/p"), format!("s://user:12345@{t}/"), format!("http://{t}#/f"), format!("s://a:b:c:d:e:f:g:h:i@{t}:65535?q"), format!("s://{t}"), format!("s://{}A@{t}:1/", "u".repeat(67)), format!("//{}AA@{t}", "user-info-user-info-user-info-user-info-user-info-user-info-user")], |r| r.authority().map(|a| a.host()));
				if !case.embedded {
					let ob = HostBuf::new(t.into()).unwrap().into_pct_string();
					ensure!(ob.as_str() == t, "into_pct_string", "{:?}: into_pct_string() = {:?}", t, ob.as_str());
				}
			}
			CKind::Segment => {
				go!(Segment, SegmentBuf, vec![format!("s://h/a/{t}"), format!("s:/x/{t}"), format!("s:a/b/c/d/e/f/g/h/i/j/k/l/m/n/o/p/q/{t}?q/r#f/g")], |r| r.path().segments().last());
			}
			CKind::Query => {
				go!(Query, QueryBuf, vec![format!("s:/p?{t}#f"), format!("s://h?{t}"), format!("http://u@h:1?{t}#?")], |r| r.query());
				if !case.embedded {
					let ob = QueryBuf::new(t.into()).unwrap().into_pct_string();
					ensure!(ob.as_str() == t, "into_pct_string", "{:?}: into_pct_string() = {:?}", t, ob.as_str());
				}
			}
			CKind::Fragment => {
				go!(Fragment, FragmentBuf, vec![format!("s:/p?q#{t}"), format!("s://h#{t}"), format!("https://h:1#{t}")], |r| r.fragment());
				if !case.embedded {
					let ob = FragmentBuf::new(t.into()).unwrap().into_pct_string();
					ensure!(ob.as_str() == t, "into_pct_string", "{:?}: into_pct_string() = {:?}", t, ob.as_str());
				}
			}
		}
		Ok(true)
	}
}

fn hx(b: u8, upper: bool) -> String {
	if upper {
		format!("%{:02X}", b)
	} else {
		format!("%{:02x}", b)
	}
}

/// Structured longer patterns covering each class named in the property.
fn structured() -> Vec<Vec<u8>> {
	let mut v: Vec<Vec<u8>> = vec![];
	// well-formed 2/3/4-byte boundaries
	for s in ["\u{80}", "\u{7ff}", "\u{800}", "\u{fff}", "\u{1000}", "\u{d7ff}", "\u{e000}", "\u{ffff}", "\u{10000}", "\u{3ffff}", "\u{40000}", "\u{fffff}", "\u{100000}", "\u{10ffff}"] {
		v.push(s.as_bytes().to_vec());
		// truncated
		let b = s.as_bytes();
		for k in 1..b.len() {
			v.push(b[..k].to_vec());
		}
		// continuation replaced
		let mut w = b.to_vec();
		let n = w.len();
		w[n - 1] = b'A';
		v.push(w);
	}
	// overlong 2/3/4
	v.extend([vec![0xC0, 0xAF], vec![0xC1, 0xBF], vec![0xE0, 0x80, 0xAF], vec![0xE0, 0x9F, 0xBF], vec![0xF0, 0x80, 0x80, 0xAF], vec![0xF0, 0x8F, 0xBF, 0xBF]]);
	// surrogates
	v.extend([vec![0xED, 0xA0, 0x80], vec![0xED, 0xBF, 0xBF], vec![0xED, 0xA0, 0x80, 0xED, 0xB0, 0x80]]);
	// > U+10FFFF and F5..FF
	v.extend([vec![0xF4, 0x90, 0x80, 0x80], vec![0xF5, 0x80, 0x80, 0x80], vec![0xF8, 0x88, 0x80, 0x80, 0x80], vec![0xFE], vec![0xFF, 0xFF]]);
	v
}

impl Prop for C19 {
	type Case = Case;
	const ID: &'static str = "C19";

	fn rule() -> String {
		"cases = (family, kind in {user info, host, segment, query, fragment}, text, stand-alone | obtained from an enclosing URI/IRI). Enumerated completely, for all 10 types: every single escape %00-%FF and every pair of escapes (65 536), upper-case hex; plus structured 1-6 escape patterns for each class named in the property (2/3/4-byte boundaries, truncations, broken continuation, overlong 2/3/4, surrogates, > U+10FFFF, F5-FF) alone and between literal ASCII and (IRI) non-ASCII text, both hex cases. Random: pool tokens mixing escapes of all classes with literal text. Oracle: %XX -> octet decoder; std::str::from_utf8 decides well-formedness. bytes() must equal the octets always; for well-formed octets chars/len/decode/== str must give that text and reject near misses; for ill-formed octets nothing may panic and the view may not equal any well-formed candidate (lossy decoding, sloppy decoding that accepts overlong/surrogates, its own decode()). Non-trivial: the text contains an escape of a non-ASCII octet.".into()
	}

	fn cases(tier: Tier) -> u64 {
		tier.pick(100_000, 3_000_000)
	}

	fn strategy(_tier: Tier) -> BoxedStrategy<Case> {
		let mut pool: Vec<String> = gen::PCT_UTF8.iter().chain(gen::PCT_NONUTF8.iter()).map(|s| s.to_string()).collect();
		pool.extend(["a", "b", "-", "~", "1", ".", "abcdefgh"].iter().map(|s| s.to_string()));
		pool.extend(gen::NONASCII.iter().map(|s| s.to_string()));
		let tokens = (gen::fam(), select(CKINDS.to_vec()), vec(select(pool), 0..10), any::<bool>())
			.prop_map(|(fam, kind, v, embedded)| Case { fam, kind, text: v.concat(), embedded });
		// IP-literal hosts (nothing to decode, but the view must still be the whole host)
		let literals = (gen::fam(), select(gen::IPV6_POOL.to_vec()), any::<bool>()).prop_map(|(fam, h, embedded)| Case { fam, kind: CKind::Host, text: h.to_string(), embedded });
		prop_oneof![15 => tokens, 1 => literals].boxed()
	}

	fn check(case: &Case, cx: &mut Ctx) -> Result<(), Failure> {
		if case.fam == Fam::Uri && !case.text.is_ascii() {
			cx.class("skipped-nonascii-uri");
			return Ok(());
		}
		let judged = by_fam!(case.fam, check(case, cx))?;
		if !judged {
			cx.class("rejected-by-library");
			return Ok(());
		}
		cx.class("judged");
		let octets = pct::decode(&case.text);
		cx.nt_if(case.text.contains('%') && octets.iter().any(|b| *b >= 0x80));
		cx.class(match case.kind {
			CKind::UserInfo => "kind:userinfo",
			CKind::Host => "kind:host",
			CKind::Segment => "kind:segment",
			CKind::Query => "kind:query",
			CKind::Fragment => "kind:fragment",
		});
		cx.class_if(case.embedded, "embedded");
		Ok(())
	}

	fn enumerate(_tier: Tier, shard: usize, nshards: usize, f: &mut dyn FnMut(Case, bool) -> bool) -> Vec<&'static str> {
		let mut i = 0usize;
		let mut emit = |fam: Fam, kind: CKind, text: String, embedded: bool, f: &mut dyn FnMut(Case, bool) -> bool| -> bool {
			i += 1;
			if i % nshards != shard {
				return true;
			}
			f(Case { fam, kind, text, embedded }, true)
		};
		for fam in [Fam::Uri, Fam::Iri] {
			for kind in CKINDS {
				for a in 0..=255u8 {
					if !emit(fam, kind, hx(a, true), a % 2 == 0, f) {
						return vec![];
					}
					for b in 0..=255u8 {
						if !emit(fam, kind, format!("{}{}", hx(a, true), hx(b, true)), false, f) {
							return vec![];
						}
					}
				}
				for pat in structured() {
					for upper in [true, false] {
						let esc: String = pat.iter().map(|b| hx(*b, upper)).collect();
						for (pre, suf) in [("", ""), ("a", "b"), ("%41", "%7E")] {
							if !emit(fam, kind, format!("{pre}{esc}{suf}"), upper, f) {
								return vec![];
							}
						}
						if fam == Fam::Iri {
							if !emit(fam, kind, format!("\u{e9}{esc}\u{8a9e}"), false, f) {
								return vec![];
							}
						}
					}
				}
			}
		}
		vec!["every single escape and every pair of escapes, 10 types", "structured 1-6 escape patterns per class, 10 types"]
	}

	fn floors(_tier: Tier) -> Vec<(&'static str, u64)> {
		vec![("judged", 500_000), ("well-formed-octets", 100_000), ("ill-formed-octets", 300_000), ("embedded", 12_000)]
	}
}
