//! C15 — relativisation round-trips through resolution.

use proptest::collection::vec;
use proptest::prelude::*;
use proptest::sample::select;
use serde::{Deserialize, Serialize};

use crate::engine::{guard, Ctx, Failure, Prop, Tier};
use crate::gen::{self, Fam, Opt};
use crate::oracle::abnf::{self, Ty};
use crate::oracle::pct;
use crate::oracle::resolve::resolve_parts;
use crate::oracle::split::{recompose, segs, split, Parts};
use crate::props::c06;
use crate::{both_families, by_fam, ensure, fail, soft_fail};

#[derive(Debug, Clone, Hash, Serialize, Deserialize)]
pub struct Case {
	pub fam: Fam,
	pub a: String,
	pub b: String,
}

pub struct C15;

pub const UNREACHABLE_SIG: &str = "target-with-final-dot-segment-is-unreachable";
pub const BLOCKED_SIG: &str = "roundtrip-blocked-by-resolution-quirk";

both_families! {
	pub fn check(case: &Case, cx: &mut Ctx) -> Result<bool, Failure> {
		check_texts(case.a.as_str(), case.b.as_str(), cx)
	}

	/// `ta` and `tb` may be views of one buffer (they are parsed in place)
	pub fn check_texts(ta: &str, tb: &str, cx: &mut Ctx) -> Result<bool, Failure> {
		let a = match Ri::new(ta) { Ok(v) => v, Err(_) => return Ok(false) };
		let b = match Ri::new(tb) { Ok(v) => v, Err(_) => return Ok(false) };
		let r = guard(|| a.relative_to(b)).map_err(|p| Failure::new(format!("relative_to-panics:{}", p.loc), format!("{:?}.relative_to({:?}) panicked at {}: {}", ta, tb, p.loc, p.msg)))?;
		let rt = String::from_utf8_lossy(r.as_bytes()).to_string();
		ensure!(RiRef::new(rt.as_str()).is_ok(), "result-invalid", "{:?}.relative_to({:?}) = {:?}, not a valid reference", ta, tb, rt);
		let ty = if FAM == Fam::Uri { Ty::UriRef } else { Ty::IriRef };
		ensure!(abnf::accepts_str(ty, &rt), "result-invalid-per-rfc", "{:?}.relative_to({:?}) = {:?}, not derivable from the reference grammar", ta, tb, rt);
		// via the reference types too
		let r2 = guard(|| a.as_ref_view().relative_to(b.as_ref_view())).map_err(|p| Failure::new(format!("relative_to-panics:{}", p.loc), format!("reference-typed relative_to panicked: {}", p.msg)))?;
		ensure!(r2.as_bytes() == r.as_bytes(), "entry-points-differ", "{:?} relative to {:?}: Ri::relative_to = {:?}, RiRef::relative_to = {:?}", ta, tb, rt, String::from_utf8_lossy(r2.as_bytes()));
		// round trip through the library
		let back = guard(|| r.resolved(b)).map_err(|p| Failure::new(format!("resolved-panics:{}", p.loc), format!("resolving {:?} against {:?} panicked: {}", rt, tb, p.msg)))?;
		let bt = String::from_utf8_lossy(back.as_bytes()).to_string();
		let lib_eq = guard(|| back == *a).map_err(|p| Failure::new(format!("eq-panics:{}", p.loc), format!("comparing {:?} with {:?} panicked: {}", bt, ta, p.msg)))?;
		// round trip through the reference models
		let t = resolve_parts(&split(tb), &split(&rt));
		let model_target = recompose(&t);
		let model_eq = pct::equiv_parts(&t, &split(ta));
		if !lib_eq || !model_eq {
			let class = classify(ta, tb);
			let pa = split(ta);
			let pb = split(tb);
			// (1) targets no resolution can produce: resolving `a` itself (scheme branch) already
			// yields something the documented equality distinguishes from `a` (final dot segment).
			let self_target = resolve_parts(&pb, &pa);
			if !pct::equiv_parts(&self_target, &pa) {
				soft_fail!(cx, UNREACHABLE_SIG, "{:?} relative to {:?} = {:?} resolves to {:?}, not equal to a - but no reference can: even {:?} itself resolves to {:?} (RFC 3986 5.2.4 leaves a trailing '/' for the final dot segment, the documented equality does not)", ta, tb, rt, bt, ta, recompose(&self_target));
				return Ok(true);
			}
			// (2) the reference is right per RFC 3986 but the library's resolution of it hits the recorded C06 finding
			if model_eq && !lib_eq {
				let pr = split(&rt);
				if let Some((qabs, ql)) = c06::quirk_merge(&pb, &pr.path) {
					let got = split(&bt);
					if crate::oracle::norm::accept_textual(&got.path, qabs, &ql) && got.scheme == t.scheme && got.authority == t.authority && got.query == t.query && got.fragment == t.fragment {
						soft_fail!(cx, BLOCKED_SIG, "{:?} relative to {:?} = {:?}, correct per RFC 3986 5.2 (target {:?}), but the library resolves it to {:?} (recorded C06 finding: empty segment ignored on an empty merged path)", ta, tb, rt, model_target, bt);
						return Ok(true);
					}
				}
			}
			if lib_eq != model_eq {
				// the library's resolution/equality and the reference models disagree on this reference:
				// that is a C06/C07 matter, reported as such
				fail!(format!("roundtrip-oracles-disagree:{class}"), "{:?} relative to {:?} = {:?}; resolved by the library: {:?} (== a: {}), by RFC 3986 5.2: {:?} (equivalent to a: {})", ta, tb, rt, bt, lib_eq, model_target, model_eq);
			}
			fail!(format!("roundtrip:{class}"), "{:?} relative to {:?} = {:?}, which resolves against b to {:?} (RFC: {:?}) - not equal to a", ta, tb, rt, bt, model_target);
		}
		ensure!(a.as_str() == ta && b.as_str() == tb, "inputs-changed", "inputs changed");
		cx.obs(4);
		Ok(true)
	}

	trait RefView { type R: ?Sized; fn as_ref_view(&self) -> &Self::R; }
	impl RefView for Ri { type R = RiRef; fn as_ref_view(&self) -> &RiRef { self.as_ref() } }
}

/// Relation of a's path to b's directory (for classes and failure signatures).
pub fn classify(a: &str, b: &str) -> &'static str {
	let pa = split(a);
	let pb = split(b);
	if pa.scheme != pb.scheme {
		return "different-scheme";
	}
	if pa.authority != pb.authority {
		return "different-authority";
	}
	let (aabs, asg) = segs(&pa.path);
	let (babs, bsg) = segs(&pb.path);
	if aabs != babs {
		return "different-absoluteness";
	}
	if pa.path.is_empty() || pb.path.is_empty() {
		return if pa.path.is_empty() && pb.path.is_empty() { "both-paths-empty" } else if pa.path.is_empty() { "a-path-empty" } else { "b-path-empty" };
	}
	if pa.path == pb.path {
		return "same-path";
	}
	let bdir: &[String] = if bsg.is_empty() { &[] } else { &bsg[..bsg.len() - 1] };
	let common = asg.iter().zip(bdir.iter()).take_while(|(x, y)| x == y).count();
	if common == bdir.len() {
		if asg.len() == bdir.len() {
			"a-is-b-directory-without-slash"
		} else if asg.len() == bdir.len() + 1 && asg.last().map(|s| s.is_empty()).unwrap_or(false) {
			"a-is-b-directory"
		} else {
			"a-below-b-directory"
		}
	} else if common == asg.len() {
		"a-above-b-directory"
	} else if asg.len() > common && asg[common..].iter().all(|s| s.is_empty()) && common + 1 == asg.len() {
		"a-above-b-directory-with-slash"
	} else {
		"a-beside-b"
	}
}

pub fn pair(o: Opt) -> BoxedStrategy<(String, String)> {
	let seg = || prop_oneof![8 => gen::plain_segment(o), 1 => select(vec!["".to_string(), ".".to_string(), "..".to_string()]), 1 => gen::segment(o)];
	(
		(gen::scheme(), gen::scheme(), 0u8..10),
		(gen::opt_of(gen::authority(o), 6), gen::opt_of(gen::authority(o), 6), 0u8..10),
		(any::<bool>(), 0u8..10),
		vec(seg(), 0..4),
		vec(seg(), 0..4),
		vec(seg(), 0..4),
		(any::<bool>(), any::<bool>()),
		(gen::opt_of(gen::query(o), 3), gen::opt_of(gen::fragment(o), 3), gen::opt_of(gen::query(o), 3), gen::opt_of(gen::fragment(o), 3)),
		0u8..10,
	)
		.prop_map(|((s1, s2, sd), (a1, a2, ad), (abs, absd), stem, mut sa, mut sb, (ta, tb), (qa, fa, mut qb, fb), qsame)| {
			// 15 %: the two paths diverge at a pair of segments that are easily confused
			// (same encoded length with one decoding to a prefix of the other, escapes vs literals, case)
			const TWINS: [(&str, &str); 14] = [("%41b", "Abcd"), ("%7Euser", "~user12"), ("%41", "A"), ("%41", "%61"), ("ab", "abc"), ("abc", "ab"), ("A", "a"), ("%2e", "."), ("%2E%2E", ".."), ("a%2Fb", "a%2fb"), ("a%2Fb", "a"), ("x", "x%20"), ("%C3%A9", "%c3%a9"), ("%C3%A9b", "%C3")];
			if absd % 7 == 1 {
				let (x, y) = TWINS[(qsame as usize + sd as usize + ad as usize) % TWINS.len()];
				sa.insert(0, x.to_string());
				sb.insert(0, y.to_string());
			}
			// an encoded slash on one side, a real one on the other: "a%2Fb" vs "a", "b"
			if absd % 7 == 2 {
				sa.insert(0, "a%2Fb".to_string());
				sb.insert(0, "b".to_string());
				sb.insert(0, "a".to_string());
			}
			let scheme_b = if sd == 0 { s2 } else { s1.clone() };
			let mut auth_b = if ad == 0 { a2 } else { a1.clone() };
			// 20 %: b's authority is a CONFUSABLE spelling of a's: a delimiter percent-encoded ("u%40h" for "u@h",
			// "h%3A80" for "h:80" - a different authority), or an escape respelled (the same authority)
			if ad == 1 || ad == 2 {
				if let Some(x) = &a1 {
					let mut cur = Parts { scheme: None, authority: Some(x.clone()), path: String::new(), query: None, fragment: None };
					let v = if ad == 1 { gen::Variant::EncodeDelimiter(sd.wrapping_add(absd)) } else { gen::Variant::HexCase(sd as u16) };
					cur = gen::apply_variant(&cur, &v);
					auth_b = cur.authority;
				}
			}
			let abs_b = if absd == 0 { !abs } else { abs };
			let mut pa = stem.clone();
			pa.extend(sa);
			if ta {
				pa.push(String::new())
			}
			// a third of the time b spells the SHARED directories differently (every character percent-encoded, or
			// the escapes in the other hex case): equal segments, other text, other length
			let mut pb: Vec<String> = if qsame % 3 == 1 {
				stem.iter().map(|seg| if seg == "." || seg == ".." || seg.is_empty() { seg.clone() } else if seg.contains('%') { seg.to_ascii_lowercase() } else { seg.bytes().map(|b| format!("%{:02X}", b)).collect::<String>() }).collect()
			} else {
				stem
			};
			pb.extend(sb);
			if tb {
				pb.push(String::new())
			}
			let qb = if qsame < 3 {
				qa.clone()
			} else if qsame == 3 {
				// same query up to ASCII letter case outside escapes
				qa.as_ref().map(|q| {
					let b: Vec<char> = q.chars().collect();
					let mut out = String::new();
					let mut i = 0;
					while i < b.len() {
						if b[i] == '%' && i + 2 < b.len() {
							out.extend(&b[i..i + 3]);
							i += 3;
						} else {
							out.push(if b[i].is_ascii_lowercase() { b[i].to_ascii_uppercase() } else { b[i].to_ascii_lowercase() });
							i += 1;
						}
					}
					out
				})
			} else {
				qb.take()
			};
			let a = gen::repair(Parts { scheme: Some(s1), authority: a1, path: String::new(), query: qa, fragment: fa }, abs, pa, true);
			let b = gen::repair(Parts { scheme: Some(scheme_b), authority: auth_b, path: String::new(), query: qb, fragment: fb }, abs_b, pb, true);
			(recompose(&a), recompose(&b))
		})
		.boxed()
}

impl Prop for C15 {
	type Case = Case;
	const ID: &'static str = "C15";

	fn rule() -> String {
		"cases = (family, a, b) full URIs/IRIs built around a shared stem: same scheme/authority in ~90 % (else the function returns a verbatim), paths sharing a prefix of every length 0..n with 0-3 own segments each (mostly plain, some empty / dot / colon / pct), with/without trailing slash, empty paths, queries and fragments on either side (same query in 30 %), plus 10 % independent pairs. Oracle (round trip): r = a.relative_to(b) does not panic, is a valid reference (library and independent recogniser), Ri::relative_to and RiRef::relative_to agree, and r resolved against b equals a - judged BOTH by the library (resolved + ==) and by the reference models (RFC 3986 5.2 resolver + documented equivalence); a disagreement between the two is reported as such. Non-trivial: same scheme and authority.".into()
	}

	fn cases(tier: Tier) -> u64 {
		tier.pick(300_000, 8_000_000)
	}

	fn strategy(_tier: Tier) -> BoxedStrategy<Case> {
		gen::fam()
			.prop_flat_map(|f| {
				let o = Opt::new(f);
				prop_oneof![
					9 => pair(o),
					1 => (gen::reference(o, true), gen::reference(o, true)),
				]
				.prop_map(move |(a, b)| Case { fam: f, a, b })
			})
			.boxed()
	}

	fn check(case: &Case, cx: &mut Ctx) -> Result<(), Failure> {
		if case.fam == Fam::Uri && !(case.a.is_ascii() && case.b.is_ascii()) {
			cx.class("skipped-nonascii-uri");
			return Ok(());
		}
		let judged = by_fam!(case.fam, check(case, cx))?;
		if !judged {
			cx.class("rejected-by-library");
			return Ok(());
		}
		// the same with b (then a) being a VIEW of the other one's buffer - same start address - and with
		// a relative to itself (one object)
		{
			let valid = |p: &str| match case.fam { Fam::Uri => iref::Uri::new(p).is_ok(), Fam::Iri => iref::Iri::new(p).is_ok() };
			let tag = |f: Failure| Failure::new(format!("aliased:{}", f.sig), format!("(the two values are views of one buffer) {}", f.msg));
			for k in gen::valid_prefix_cuts(&case.a, 5, valid) {
				by_fam!(case.fam, check_texts(&case.a, &case.a[..k], cx)).map_err(tag)?;
				by_fam!(case.fam, check_texts(&case.a[..k], &case.a, cx)).map_err(tag)?;
				cx.class("aliased-prefix-view");
			}
			by_fam!(case.fam, check_texts(&case.a, &case.a, cx)).map_err(tag)?;
		}
		cx.class("judged");
		let class = classify(&case.a, &case.b);
		cx.nt_if(!matches!(class, "different-scheme" | "different-authority"));
		cx.class(match class {
			"different-scheme" => "rel:different-scheme",
			"different-authority" => "rel:different-authority",
			"different-absoluteness" => "rel:different-absoluteness",
			"both-paths-empty" => "rel:both-paths-empty",
			"a-path-empty" => "rel:a-path-empty",
			"b-path-empty" => "rel:b-path-empty",
			"same-path" => "rel:same-path",
			"a-is-b-directory-without-slash" => "rel:a-is-b-directory-without-slash",
			"a-is-b-directory" => "rel:a-is-b-directory",
			"a-below-b-directory" => "rel:a-below-b-directory",
			"a-above-b-directory" => "rel:a-above-b-directory",
			"a-above-b-directory-with-slash" => "rel:a-above-b-directory-with-slash",
			_ => "rel:a-beside-b",
		});
		let pa = split(&case.a);
		cx.class_if(pa.query.is_some() || pa.fragment.is_some(), "a-has-query-or-fragment");
		Ok(())
	}

	fn floors(_tier: Tier) -> Vec<(&'static str, u64)> {
		vec![
			("judged", 200_000),
			("rel:same-path", 3_000),
			("rel:a-below-b-directory", 20_000),
			("rel:a-above-b-directory", 5_000),
			("rel:a-beside-b", 20_000),
			("rel:a-is-b-directory", 1_000),
			("rel:a-path-empty", 1_000),
			("rel:b-path-empty", 1_000),
			("a-has-query-or-fragment", 50_000),
		]
	}
}

/// Development aid: enumerate small pairs and print the failing ones by class.
pub fn explore() {
	crate::engine::install_panic_hook();
	let paths = ["", "/", "/a", "/a/", "/a/b", "/a/b/", "/a/c", "/b", "/a/b/c", "//", "/a//", "a", "a/", "a/b", "b", "..", "/.", "/a/..", "/a/./b", "/a:b", "/a/b:c"];
	let qf = ["", "?q", "#f", "?q#f", "?"];
	let mut seen = std::collections::BTreeMap::<String, Vec<String>>::new();
	for auth in ["", "//h"] {
		for pa in paths {
			for pb in paths {
				if !auth.is_empty() && ((!pa.is_empty() && !pa.starts_with('/')) || (!pb.is_empty() && !pb.starts_with('/'))) {
					continue;
				}
				if auth.is_empty() && (pa.starts_with("//") || pb.starts_with("//")) {
					continue;
				}
				for qa in qf {
					for qb in ["", "?q", "?x"] {
						let a = format!("s:{auth}{pa}{qa}");
						let b = format!("s:{auth}{pb}{qb}");
						let case = Case { fam: Fam::Iri, a: a.clone(), b: b.clone() };
						let mut cx = Ctx::default();
						if let Err(f) = i::check(&case, &mut cx) {
							let e = seen.entry(f.sig.clone()).or_default();
							if e.len() < 6 {
								e.push(f.msg);
							}
						}
					}
				}
			}
		}
	}
	for (k, v) in seen {
		println!("== {k}");
		for m in v {
			println!("   {m}");
		}
	}
}
