//! C20 — borrowed parsing and component access are zero-copy and allocation-free.

use proptest::prelude::*;
use proptest::sample::select;
use serde::{Deserialize, Serialize};

use crate::alloc::counted;
use crate::engine::{Ctx, Failure, Prop, Tier};
use crate::gen::{self, Fam, Opt};
use crate::oracle::split::recompose;
use crate::props::cmpgen::Kind;
use crate::{both_families, by_fam, ensure};

#[derive(Debug, Clone, Hash, Serialize, Deserialize)]
pub struct Case {
	pub fam: Fam,
	pub kind: Kind,
	pub text: String,
}

pub struct C20;

/// Record of what the armed region observed (filled without allocating).
#[derive(Default, Clone, Copy)]
pub struct Obs {
	pub calls: u32,
	/// first violated check, if any
	pub bad: Option<&'static str>,
	pub accepted: bool,
}

#[inline]
fn inside(outer: &[u8], inner: &[u8]) -> bool {
	let o = outer.as_ptr() as usize;
	let i = inner.as_ptr() as usize;
	i >= o && i + inner.len() <= o + outer.len()
}

/// A slice read from the value must lie in the input, or be one of the
/// documented constants.
#[inline]
fn ok_slice(input: &[u8], s: &[u8]) -> bool {
	inside(input, s) || s.is_empty() || s == b"/" || s == b"/./"
}

both_families! {
	use super::{inside, ok_slice, Obs};

	macro_rules! chk { ($o:expr, $cond:expr, $what:expr) => { $o.calls += 1; if !($cond) && $o.bad.is_none() { $o.bad = Some($what); } }; }

	#[inline(never)]
	fn path_reads(input: &[u8], p: &Path, o: &mut Obs) {
		chk!(o, ok_slice(input, p.as_bytes()), "path() not a slice of the input");
		let mut it = p.segments();
		let mut n = 0usize;
		let mut flip = false;
		loop {
			let x = if flip { it.next_back() } else { it.next() };
			flip = !flip;
			match x { Some(s) => { n += 1; chk!(o, ok_slice(input, s.as_bytes()), "segment not a slice of the input"); } None => break }
		}
		chk!(o, p.segment_count() == n, "segment_count");
		if let Some(s) = p.first() { chk!(o, ok_slice(input, s.as_bytes()), "first() not a slice of the input"); }
		if let Some(s) = p.last() { chk!(o, ok_slice(input, s.as_bytes()), "last() not a slice of the input"); }
		if let Some(s) = p.file_name() { chk!(o, ok_slice(input, s.as_bytes()), "file_name() not a slice of the input"); }
		chk!(o, ok_slice(input, p.directory().as_bytes()), "directory() not a slice of the input");
		if let Some(s) = p.parent() { chk!(o, ok_slice(input, s.as_bytes()), "parent() not a slice of the input"); }
		chk!(o, ok_slice(input, p.parent_or_empty().as_bytes()), "parent_or_empty() not a slice of the input");
		let _ = std::hint::black_box((p.is_empty(), p.is_absolute(), p.is_relative()));
		o.calls += 3;
	}

	#[inline(never)]
	fn authority_reads(input: &[u8], a: &Authority, o: &mut Obs) {
		chk!(o, inside(input, a.as_bytes()), "authority() not a slice of the input");
		if let Some(u) = a.user_info() { chk!(o, inside(a.as_bytes(), u.as_bytes()), "user_info() not inside the authority"); }
		chk!(o, inside(a.as_bytes(), a.host().as_bytes()), "host() not inside the authority");
		if let Some(p) = a.port() { chk!(o, inside(a.as_bytes(), p.as_bytes()), "port() not inside the authority"); }
		let pp = a.parts();
		if let Some(u) = pp.user_info { chk!(o, inside(a.as_bytes(), u.as_bytes()), "parts().user_info not inside the authority"); }
		chk!(o, inside(a.as_bytes(), pp.host.as_bytes()), "parts().host not inside the authority");
		if let Some(p) = pp.port { chk!(o, inside(a.as_bytes(), p.as_bytes()), "parts().port not inside the authority"); }
		// order: userinfo < host < port
		let h = pp.host.as_bytes().as_ptr() as usize;
		if let Some(u) = pp.user_info { chk!(o, (u.as_bytes().as_ptr() as usize) + u.as_bytes().len() < h || u.as_bytes().len() == 0 && (u.as_bytes().as_ptr() as usize) < h, "user info does not precede the host"); }
		if let Some(p) = pp.port { chk!(o, h + pp.host.as_bytes().len() < p.as_bytes().as_ptr() as usize + 1, "host does not precede the port"); }
	}

	/// Reads common to references and full values, given the five components.
	#[inline(never)]
	fn order(input: &[u8], s: Option<&[u8]>, a: Option<&[u8]>, p: &[u8], q: Option<&[u8]>, f: Option<&[u8]>, o: &mut Obs) {
		// scheme < authority < path < query < fragment, inside the input, no overlap
		let mut pos = input.as_ptr() as usize;
		let mut step = |x: Option<&[u8]>, gap: usize, what: &'static str, o: &mut Obs| {
			if let Some(x) = x {
				let st = x.as_ptr() as usize;
				chk!(o, inside(input, x) && st >= pos + gap, what);
				pos = st + x.len();
			}
		};
		step(s, 0, "scheme not at the start / outside the input", o);
		step(a, if s.is_some() { 3 } else { 2 }, "authority overlaps the scheme or lies outside the input", o);
		if inside(input, p) { step(Some(p), 0, "path overlaps an earlier component", o); }
		step(q, 1, "query overlaps the path or lies outside the input", o);
		step(f, 1, "fragment overlaps the query or lies outside the input", o);
	}

	pub fn run(case: &Case) -> (Obs, u64, u64) {
		run_text(case.kind, case.text.as_str())
	}

	pub fn run_text(kind: Kind, text: &str) -> (Obs, u64, u64) {
		let input = text.as_bytes();
		counted(move || {
			let mut o = Obs::default();
			match kind {
				Kind::Reference => {
					let ok = RiRef::validate(crate::props::c20::tokens::<Raw>(text));
					if let Ok(r) = RiRef::new(text) {
						o.accepted = true;
						chk!(o, ok, "validate() disagrees with new()");
						chk!(o, r.as_bytes().as_ptr() == input.as_ptr() && r.as_bytes().len() == input.len(), "parsed value does not occupy the input");
						let pp = r.parts();
						order(input, pp.scheme.map(|x| x.as_bytes()), pp.authority.map(|x| x.as_bytes()), pp.path.as_bytes(), pp.query.map(|x| x.as_bytes()), pp.fragment.map(|x| x.as_bytes()), &mut o);
						order(input, r.scheme().map(|x| x.as_bytes()), r.authority().map(|x| x.as_bytes()), r.path().as_bytes(), r.query().map(|x| x.as_bytes()), r.fragment().map(|x| x.as_bytes()), &mut o);
						if let Some(a) = r.authority() { authority_reads(input, a, &mut o); }
						path_reads(input, r.path(), &mut o);
						chk!(o, inside(input, r.base().as_bytes()) && r.base().as_bytes().as_ptr() == input.as_ptr(), "base() not a prefix slice of the input");
						if let Some(i) = r.as_ri_opt() { chk!(o, i.as_bytes().as_ptr() == input.as_ptr(), "as full value moved"); }
						let _ = std::hint::black_box(r.conv_views());
						o.calls += 3;
					}
				}
				Kind::Full => {
					let ok = Ri::validate(crate::props::c20::tokens::<Raw>(text));
					if let Ok(r) = Ri::new(text) {
						o.accepted = true;
						chk!(o, ok, "validate() disagrees with new()");
						chk!(o, r.as_bytes().as_ptr() == input.as_ptr() && r.as_bytes().len() == input.len(), "parsed value does not occupy the input");
						let pp = r.parts();
						order(input, Some(pp.scheme.as_bytes()), pp.authority.map(|x| x.as_bytes()), pp.path.as_bytes(), pp.query.map(|x| x.as_bytes()), pp.fragment.map(|x| x.as_bytes()), &mut o);
						order(input, Some(r.scheme().as_bytes()), r.authority().map(|x| x.as_bytes()), r.path().as_bytes(), r.query().map(|x| x.as_bytes()), r.fragment().map(|x| x.as_bytes()), &mut o);
						if let Some(a) = r.authority() { authority_reads(input, a, &mut o); }
						path_reads(input, r.path(), &mut o);
						chk!(o, inside(input, r.base().as_bytes()) && r.base().as_bytes().as_ptr() == input.as_ptr(), "base() not a prefix slice of the input");
						let _ = std::hint::black_box(r.conv_views());
						o.calls += 3;
					}
				}
				Kind::Authority => { if let Ok(a) = Authority::new(text) { o.accepted = true; chk!(o, a.as_bytes().as_ptr() == input.as_ptr() && a.as_bytes().len() == input.len(), "parsed value does not occupy the input"); authority_reads(input, a, &mut o); } }
				Kind::Path => { if let Ok(p) = Path::new(text) { o.accepted = true; chk!(o, p.as_bytes().as_ptr() == input.as_ptr() && p.as_bytes().len() == input.len(), "parsed value does not occupy the input"); path_reads(input, p, &mut o); } }
				Kind::Segment => { if let Ok(v) = Segment::new(text) { o.accepted = true; chk!(o, v.as_bytes().as_ptr() == input.as_ptr() && v.as_bytes().len() == input.len(), "parsed value does not occupy the input"); } }
				Kind::Host => { if let Ok(v) = Host::new(text) { o.accepted = true; chk!(o, v.as_bytes().as_ptr() == input.as_ptr() && v.as_bytes().len() == input.len(), "parsed value does not occupy the input"); } }
				Kind::UserInfo => { if let Ok(v) = UserInfo::new(text) { o.accepted = true; chk!(o, v.as_bytes().as_ptr() == input.as_ptr() && v.as_bytes().len() == input.len(), "parsed value does not occupy the input"); } }
				Kind::Query => { if let Ok(v) = Query::new(text) { o.accepted = true; chk!(o, v.as_bytes().as_ptr() == input.as_ptr() && v.as_bytes().len() == input.len(), "parsed value does not occupy the input"); } }
				Kind::Fragment => { if let Ok(v) = Fragment::new(text) { o.accepted = true; chk!(o, v.as_bytes().as_ptr() == input.as_ptr() && v.as_bytes().len() == input.len(), "parsed value does not occupy the input"); } }
				Kind::Scheme => { if let Ok(v) = Scheme::new(text) { o.accepted = true; chk!(o, v.as_bytes().as_ptr() == input.as_ptr() && v.as_bytes().len() == input.len(), "parsed value does not occupy the input"); } }
				Kind::Port => { if let Ok(v) = Port::new(text) { o.accepted = true; chk!(o, v.as_bytes().as_ptr() == input.as_ptr() && v.as_bytes().len() == input.len(), "parsed value does not occupy the input"); } }
			}
			o
		})
	}

	/// Conversions between the main types (borrowed, no allocation allowed).
	pub trait ConvViews { fn conv_views(&self) -> usize; }
	pub trait AsRiOpt { fn as_ri_opt(&self) -> Option<&Ri>; }
}

/// Token iterator for `validate` (bytes for the URI family, chars for IRI).
pub trait Tok {
	type It<'a>: Iterator
	where
		Self: 'a;
}
pub fn tokens<'a, R: ?Sized + Toks>(s: &'a str) -> R::It<'a> {
	R::toks(s)
}
pub trait Toks {
	type It<'a>;
	fn toks(s: &str) -> Self::It<'_>;
}
impl Toks for [u8] {
	type It<'a> = std::iter::Copied<std::slice::Iter<'a, u8>>;
	fn toks(s: &str) -> Self::It<'_> {
		s.as_bytes().iter().copied()
	}
}
impl Toks for str {
	type It<'a> = std::str::Chars<'a>;
	fn toks(s: &str) -> Self::It<'_> {
		s.chars()
	}
}

mod conv_impls {
	use iref::{Iri, IriRef, Uri, UriRef};
	impl super::u::ConvViews for Uri {
		fn conv_views(&self) -> usize {
			self.as_uri_ref().as_bytes().len() + self.as_iri().as_bytes().len() + self.as_iri_ref().as_bytes().len()
		}
	}
	impl super::u::ConvViews for UriRef {
		fn conv_views(&self) -> usize {
			self.as_iri_ref().as_bytes().len() + self.as_uri().map(|x| x.as_bytes().len()).unwrap_or(0) + self.as_iri().map(|x| x.as_bytes().len()).unwrap_or(0)
		}
	}
	impl super::u::AsRiOpt for UriRef {
		fn as_ri_opt(&self) -> Option<&Uri> {
			self.as_uri()
		}
	}
	impl super::i::ConvViews for Iri {
		fn conv_views(&self) -> usize {
			self.as_iri_ref().as_bytes().len() + self.as_uri().map(|x| x.as_bytes().len()).unwrap_or(0) + self.as_uri_ref().map(|x| x.as_bytes().len()).unwrap_or(0)
		}
	}
	impl super::i::ConvViews for IriRef {
		fn conv_views(&self) -> usize {
			self.as_iri().map(|x| x.as_bytes().len()).unwrap_or(0) + self.as_uri().map(|x| x.as_bytes().len()).unwrap_or(0) + self.as_uri_ref().map(|x| x.as_bytes().len()).unwrap_or(0)
		}
	}
	impl super::i::AsRiOpt for IriRef {
		fn as_ri_opt(&self) -> Option<&Iri> {
			self.as_iri()
		}
	}
}

impl Prop for C20 {
	type Case = Case;
	const ID: &'static str = "C20";

	fn rule() -> String {
		"cases = (family, kind in the 11 borrowed kinds, text): structural generator output (multi-byte text, > 16 segments, > 512 bytes in a fixed share), a share of very large inputs (> 64 KiB), and 1-3 edit mutants (rejected inputs must not allocate either). Around ONE armed region of a thread-local counting global allocator the check runs: validate, new, parts(), scheme/authority/path/query/fragment, authority parts/user_info/host/port, path segments iterated alternately from both ends, segment_count, first, last, file_name, directory, parent, parent_or_empty, is_*, base(), and the borrowed as_* conversions. Oracle: allocation count == 0; the parsed value's address and length equal the input's; every returned slice lies inside the input (or is one of the documented constants '', '/', '/./'); scheme < authority < path < query < fragment by address with the delimiters between them; user info < host < port inside the authority. Non-trivial: >= 3 components present or the input exceeds an inline-buffer threshold (16 segments / 512 bytes).".into()
	}

	fn assumptions() -> Vec<String> {
		vec!["normalized*, suffix, relative_to, to_owned and resolution allocate by contract and are outside the statement".into(),
			"the harness's own bookkeeping inside the armed region uses only stack values".into()]
	}

	fn cases(tier: Tier) -> u64 {
		tier.pick(100_000, 3_000_000)
	}

	fn self_check() -> Result<(), String> {
		crate::alloc::self_check()
	}

	fn strategy(_tier: Tier) -> BoxedStrategy<Case> {
		(gen::fam(), select(crate::props::cmpgen::KINDS.to_vec()), 0u8..100)
			.prop_flat_map(|(f, kind, big)| {
				let o = Opt::new(f).with_nonutf8(true);
				let base: BoxedStrategy<String> = match kind {
					Kind::Reference | Kind::Full => {
						let full = kind == Kind::Full;
						if big < 2 {
							// > 64 KiB
							(gen::ref_parts(o, full), 2000usize..3000).prop_map(|(mut p, n)| { p.path.push_str(&"/0123456789abcdefghijklmnopqrstuv".repeat(n)); recompose(&p) }).boxed()
						} else {
							gen::reference(o, full)
						}
					}
					Kind::Authority => gen::authority(o),
					Kind::Path => if big < 3 { (gen::path(o), 2000usize..3000).prop_map(|(p, n)| format!("{p}{}", "/xyz".repeat(n * 8))).boxed() } else { gen::path(o) },
					Kind::Segment => gen::segment(o),
					Kind::Host => gen::host(o),
					Kind::UserInfo => gen::userinfo(o),
					Kind::Query => gen::query(o),
					Kind::Fragment => gen::fragment(o),
					Kind::Scheme => gen::scheme(),
					Kind::Port => gen::port(),
				};
				(base, proptest::collection::vec(gen::edit(), 0..=3), 0u8..10).prop_map(move |(s, e, m)| Case { fam: f, kind, text: if m == 0 { gen::apply_edits(&s, &e) } else { s } })
			})
			.boxed()
	}

	fn check(case: &Case, cx: &mut Ctx) -> Result<(), Failure> {
		if case.fam == Fam::Uri && !case.text.is_ascii() {
			// still a legitimate *rejected* input for the URI family: must not allocate either
		}
		// the same text borrowed at an odd offset inside a larger buffer
		{
			let k = 1 + case.text.len() % 7;
			let padded = format!("{}{}{}", &"~~~~~~~~"[..k], case.text, "~~~");
			let sub = Case { fam: case.fam, kind: case.kind, text: String::new() };
			let _ = sub;
			let view: &str = &padded[k..k + case.text.len()];
			let (o, n, bytes) = match case.fam { Fam::Uri => u::run_text(case.kind, view), Fam::Iri => i::run_text(case.kind, view) };
			ensure!(n == 0, "allocates:misaligned", "{:?} (borrowed at offset {k} of a larger buffer, len {}): {} heap allocation(s) ({} bytes)", case.kind, case.text.len(), n, bytes);
			if let Some(b) = o.bad {
				return Err(Failure::new(format!("zero-copy-misaligned:{b}"), format!("{:?} {:?} borrowed at offset {k} of a larger buffer: {b}", case.kind, crate::engine::truncate(&case.text, 200))));
			}
		}
		let (o, n, bytes) = by_fam!(case.fam, run(case));
		ensure!(n == 0, if o.accepted { "allocates:accepted" } else { "allocates:rejected" }, "{:?} {:?} (len {}): {} heap allocation(s) ({} bytes) while parsing / reading ({} calls)", case.kind, crate::engine::truncate(&case.text, 120), case.text.len(), n, bytes, o.calls);
		if let Some(b) = o.bad {
			return Err(Failure::new(format!("zero-copy:{b}"), format!("{:?} {:?}: {b}", case.kind, crate::engine::truncate(&case.text, 200))));
		}
		cx.obs(o.calls as u64);
		if o.accepted {
			cx.class("accepted");
			let p = crate::oracle::split::split(&case.text);
			let comps = p.scheme.is_some() as u32 + p.authority.is_some() as u32 + (!p.path.is_empty()) as u32 + p.query.is_some() as u32 + p.fragment.is_some() as u32;
			let big = case.text.len() > 512 || case.text.matches('/').count() > 16;
			cx.nt_if((matches!(case.kind, Kind::Reference | Kind::Full) && comps >= 3) || big);
			cx.class_if(big, "beyond-inline-buffers");
			cx.class_if(case.text.len() > 65536, "larger-than-64KiB");
			cx.class_if(!case.text.is_ascii(), "non-ascii");
			cx.class(case.kind.label());
		} else {
			cx.class("rejected");
		}
		Ok(())
	}

	fn enumerate(_tier: Tier, shard: usize, nshards: usize, f: &mut dyn FnMut(Case, bool) -> bool) -> Vec<&'static str> {
		// every LENGTH 0..=1100 of every component, then every 97th up to 70 000 (block-wise scanners)
		let lens: Vec<usize> = gen::sweep_lengths(2200, 70_000);
		for (i, n) in lens.iter().enumerate() {
			if i % nshards != shard {
				continue;
			}
			let x = gen::filler(*n);
			for (k, text) in [format!("s://u@h/p?q#{x}"), format!("s://u@h/p?{x}#f"), format!("s://u@h/{x}?q#f"), format!("s://{x}@h/p?q#f"), format!("s://u@{x}:1/p?q#f"), format!("s:{x}/p?q#f"), format!("s://h/a/{x}/b?{x}#{x}"), format!("s://u@h/{x}#f"), format!("s://u@h:1{x}", x = if *n == 0 { String::new() } else { format!("/{}", &x[1..]) }), format!("s{x}://u@h:1/p?q?r#f?g"), format!("s://h/{x}?a=1?b=2"), format!("s://h/{x}#f?g=1"), format!("s://h/{x}#{x}?x=1#"), format!("s:{x}#?{x}")].into_iter().enumerate() {
				let text = if text.ends_with("?x=1#") { text[..text.len() - 1].to_string() } else { text };
				let fam = if (i + k) % 2 == 0 { Fam::Uri } else { Fam::Iri };
				let kind = if (i + k) % 3 == 0 { Kind::Full } else { Kind::Reference };
				if !f(Case { fam, kind, text }, true) {
					return vec![];
				}
			}
		}
		vec!["every component length 0..=2200, every 97th up to 70 000 and around powers of two / 1000s / 2083 / 65 535, for fragment, query, path, user info, host, first segment and scheme"]
	}

	fn floors(_tier: Tier) -> Vec<(&'static str, u64)> {
		vec![("accepted", 70_000), ("rejected", 3_000), ("beyond-inline-buffers", 2_000), ("larger-than-64KiB", 100), ("non-ascii", 7_000), ("kind:reference", 5_000), ("kind:full", 5_000), ("kind:path", 5_000), ("kind:authority", 5_000)]
	}
}
