pub mod api;
pub mod c02;
pub mod c12;
