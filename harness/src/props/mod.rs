pub mod api;
pub mod c01;
pub mod c02;
pub mod c03;
pub mod c05;
pub mod c11;
pub mod c12;
pub mod routes;
