//! C14 — text is preserved through every route in and out, including serde.

use proptest::collection::vec;
use proptest::prelude::*;
use proptest::sample::select;
use serde::de::value::{BorrowedBytesDeserializer, BorrowedStrDeserializer, BytesDeserializer, Error as DeError, StrDeserializer, StringDeserializer};
use serde::de::IntoDeserializer;
use serde::{Deserialize, Serialize};

use crate::engine::{guard, Ctx, Failure, Prop, Tier};
use crate::ensure;
use crate::gen::{self, Fam, Opt};
use crate::oracle::abnf::{Ty, ALL_TYPES};
use crate::props::c01::{derive, Input};
use crate::props::c08::h2;
use crate::props::cmpgen;
use crate::props::routes;

#[derive(Debug, Clone, Hash, Serialize, Deserialize)]
pub struct Case {
	pub ty: Ty,
	pub input: Input,
	/// an equivalent-but-textually-different spelling (for the plain-text comparison check), if any
	pub variant: Option<String>,
}

pub struct C14;

macro_rules! out_routes {
	($name:ident, $T:ty, $TBuf:ty, $raw:ty, $owned_raw:ty, $to_raw:expr, eqstr: $eq:expr) => {
		fn $name(ty: Ty, t: &str, variant: Option<&str>, cx: &mut Ctx) -> Result<(), Failure> {
			let n = ty.name();
			let raw: &$raw = $to_raw(t);
			let v: &$T = <$T>::new(raw).map_err(|_| Failure::new("harness", format!("{n}: {:?} unexpectedly rejected", t)))?;
			macro_rules! same { ($what:expr, $got:expr) => {{ let g = $got; ensure!(AsRef::<[u8]>::as_ref(&g) == t.as_bytes(), format!("out:{}", $what), "{n} {}: {:?} instead of {:?}", $what, String::from_utf8_lossy(AsRef::<[u8]>::as_ref(&g)), t); cx.obs(1); }}; }
			same!("to_string", v.to_string());
			ensure!(format!("{:?}", v) == format!("{:?}", t), "out:Debug", "{n} Debug: {} instead of {:?}", format!("{:?}", v), t);
			same!("as_str", v.as_str());
			same!("as_bytes", v.as_bytes());
			same!("AsRef<str>", AsRef::<str>::as_ref(v));
			same!("AsRef<[u8]>", AsRef::<[u8]>::as_ref(v));
			same!("Borrow<raw>", { let b: &$raw = std::borrow::Borrow::borrow(v); b });
			same!("From<&T> for &raw", { let b: &$raw = v.into(); b });
			same!("From<&T> for &str", { let b: &str = v.into(); b });
			let owned: $TBuf = v.to_owned();
			same!("to_owned", owned.as_bytes());
			same!("Clone", owned.clone().into_bytes());
			same!("Buf::to_string", owned.to_string());
			same!("Buf::as_str", owned.as_str());
			same!("Buf::AsRef<str>", AsRef::<str>::as_ref(&owned));
			same!("Buf::AsRef<[u8]>", AsRef::<[u8]>::as_ref(&owned));
			same!("Buf::Borrow<raw>", { let b: &$raw = std::borrow::Borrow::borrow(&owned); b });
			same!("Buf::Borrow<T>", { let b: &$T = std::borrow::Borrow::borrow(&owned); b.as_bytes() });
			same!("Buf::Deref", { let b: &$T = &*owned; b.as_bytes() });
			// clone_from, both directions, with another valid value of the type (an equivalent spelling or a prefix)
			{
				let other: Option<String> = variant.filter(|w| *w != t && <$T>::new($to_raw(w)).is_ok()).map(|w| w.to_string()).or_else(|| crate::gen::valid_prefix_cuts(t, 2, |p| <$T>::new($to_raw(p)).is_ok()).last().map(|&k| t[..k].to_string()));
				if let Some(w) = other {
					let wb: $TBuf = <$T>::new($to_raw(w.as_str())).unwrap().to_owned();
					let mut x = wb.clone();
					x.clone_from(&owned);
					same!("clone_from", x.as_bytes());
					let mut y = owned.clone();
					y.clone_from(&wb);
					ensure!(y.as_bytes() == w.as_bytes(), "out:clone_from", "{n}: {:?} after clone_from({:?}) has text {:?}", t, w, String::from_utf8_lossy(y.as_bytes()));
				}
			}
			same!("into_string", owned.clone().into_string());
			same!("into_bytes", owned.clone().into_bytes());
			same!("From<Buf> for owned raw", { let r: $owned_raw = owned.clone().into(); r });
			same!("From<Buf> for String", { let r: String = owned.clone().into_string(); r });
			let json = serde_json::to_string(v).map_err(|e| Failure::new("out:serde", format!("{n}: serialisation failed: {e}")))?;
			ensure!(json == serde_json::to_string(t).unwrap(), "out:serde", "{n}: serialises to {} instead of {}", json, serde_json::to_string(t).unwrap());
			let json = serde_json::to_string(&owned).map_err(|e| Failure::new("out:serde-owned", format!("{n}: serialisation failed: {e}")))?;
			ensure!(json == serde_json::to_string(t).unwrap(), "out:serde-owned", "{n} (owned): serialises to {} instead of {}", json, serde_json::to_string(t).unwrap());
			// comparing and hashing never rewrite
			let _ = guard(|| { let _ = v == v; let _ = h2(v); let _ = *owned == *owned; });
			same!("as_str after ==/hash", v.as_str());
			same!("Buf::as_str after ==/hash", owned.as_str());
			// comparison with a plain string is plain text comparison - EVERY provided route
			// (str, &str, String, [u8], &[u8], [u8; N], &[u8; N]; borrowed and owned value) must give
			// the plain-text verdict, in the positive and in the negative direction
			let eq: Option<fn(&$T, &$TBuf, &str) -> Vec<(&'static str, bool)>> = $eq;
			if let Some(eq) = eq {
				for (route, got) in eq(v, &owned, t) {
					ensure!(got, format!("eq-str-own-text:{route}"), "{n}: value parsed from {:?} != that plain text through `{route}`", t);
					cx.obs(1);
				}
				if let Some(w) = variant {
					if w != t {
						for (route, got) in eq(v, &owned, w) {
							ensure!(!got, format!("eq-str-normalises:{route}"), "{n}: value {:?} == plain text {:?} through `{route}` (plain text comparison expected)", t, w);
						}
						cx.class("eq-str-against-equivalent-variant");
					}
				}
				let mut longer = t.to_string(); longer.push('x');
				for (route, got) in eq(v, &owned, &longer) {
					ensure!(!got, format!("eq-str-prefix:{route}"), "{n}: value {:?} == {:?} through `{route}`", t, longer);
				}
				// sub-slices of the very text the value was parsed from (they share its start address)
				let cuts: Vec<usize> = t.char_indices().map(|(i, _)| i).collect();
				for k in [0, 1, cuts.len() / 2, cuts.len().saturating_sub(1)] {
					if let Some(&i) = cuts.get(k) {
						let shorter = &t[..i];
						for (route, got) in eq(v, &owned, shorter) {
							ensure!(!got, format!("eq-str-truncated:{route}"), "{n}: value {:?} == {:?} (a prefix of its own text, same address) through `{route}`", t, shorter);
						}
						// and the other way round: a value parsed in place from the prefix, against the whole text
						if let Ok(pv) = <$T>::new($to_raw(shorter)) {
							let po: $TBuf = pv.to_owned();
							for (route, got) in eq(pv, &po, t) {
								ensure!(!got, format!("eq-str-extended:{route}"), "{n}: value parsed in place from the prefix {:?} == the whole text {:?} through `{route}`", shorter, t);
							}
						}
					}
				}
				cx.obs(3);
			}
			Ok(())
		}
	};
}

fn arr<T: ?Sized + PartialEq<[u8; N]> + for<'a> PartialEq<&'a [u8; N]>, const N: usize>(v: &T, b: &[u8]) -> Vec<(&'static str, bool)> {
	let a: [u8; N] = b.try_into().unwrap();
	vec![("== [u8; N]", *v == a), ("== &[u8; N]", *v == &a)]
}

/// `[u8; N]` comparisons for the lengths that can be spelled (N <= 12)
macro_rules! arrays {
	($v:expr, $b:expr) => {
		match $b.len() {
			0 => arr::<_, 0>($v, $b), 1 => arr::<_, 1>($v, $b), 2 => arr::<_, 2>($v, $b), 3 => arr::<_, 3>($v, $b), 4 => arr::<_, 4>($v, $b),
			5 => arr::<_, 5>($v, $b), 6 => arr::<_, 6>($v, $b), 7 => arr::<_, 7>($v, $b), 8 => arr::<_, 8>($v, $b), 9 => arr::<_, 9>($v, $b),
			10 => arr::<_, 10>($v, $b), 11 => arr::<_, 11>($v, $b), 12 => arr::<_, 12>($v, $b),
			_ => vec![],
		}
	};
}

/// the byte-string family: str, &str, String, [u8], &[u8], arrays - on the borrowed and on the owned value
macro_rules! eq_bytes {
	(borrowed) => {
		Some(|v, _o, s| {
			let mut r = vec![("== str", *v == *s), ("== &str", *v == s), ("== String", *v == s.to_string()), ("== [u8]", *v == *s.as_bytes()), ("== &[u8]", *v == s.as_bytes())];
			r.extend(arrays!(v, s.as_bytes()));
			r
		})
	};
	() => {
		Some(|v, o, s| {
			let mut r = vec![("== str", *v == *s), ("== &str", *v == s), ("== String", *v == s.to_string()), ("== [u8]", *v == *s.as_bytes()), ("== &[u8]", *v == s.as_bytes())];
			r.extend(arrays!(v, s.as_bytes()));
			r.extend([("owned == str", *o == *s), ("owned == &str", *o == s), ("owned == String", *o == s.to_string()), ("owned == [u8]", *o == *s.as_bytes()), ("owned == &[u8]", *o == s.as_bytes())]);
			r.extend(arrays!(o, s.as_bytes()).into_iter().map(|(n, b)| (if n == "== [u8; N]" { "owned == [u8; N]" } else { "owned == &[u8; N]" }, b)));
			r
		})
	};
}
macro_rules! eq_strs {
	() => {
		Some(|v, o, s| vec![("== str", *v == *s), ("== &str", *v == s), ("== String", *v == s.to_string()), ("owned == str", *o == *s), ("owned == &str", *o == s), ("owned == String", *o == s.to_string())])
	};
}
macro_rules! eq_ref_str {
	() => {
		Some(|v, _o, s| vec![("== &str", *v == s)])
	};
}

fn ub(s: &str) -> &[u8] {
	s.as_bytes()
}
fn us(s: &str) -> &str {
	s
}

out_routes!(o_uri, iref::Uri, iref::UriBuf, [u8], Vec<u8>, ub, eqstr: eq_bytes!());
out_routes!(o_uri_ref, iref::UriRef, iref::UriRefBuf, [u8], Vec<u8>, ub, eqstr: eq_bytes!());
out_routes!(o_u_scheme, iref::uri::Scheme, iref::uri::SchemeBuf, [u8], Vec<u8>, ub, eqstr: None);
out_routes!(o_u_authority, iref::uri::Authority, iref::uri::AuthorityBuf, [u8], Vec<u8>, ub, eqstr: eq_ref_str!());
out_routes!(o_u_userinfo, iref::uri::UserInfo, iref::uri::UserInfoBuf, [u8], Vec<u8>, ub, eqstr: eq_ref_str!());
out_routes!(o_u_host, iref::uri::Host, iref::uri::HostBuf, [u8], Vec<u8>, ub, eqstr: eq_ref_str!());
out_routes!(o_u_port, iref::uri::Port, iref::uri::PortBuf, [u8], Vec<u8>, ub, eqstr: None);
out_routes!(o_u_path, iref::uri::Path, iref::uri::PathBuf, [u8], Vec<u8>, ub, eqstr: eq_bytes!(borrowed));
out_routes!(o_u_segment, iref::uri::Segment, iref::uri::SegmentBuf, [u8], Vec<u8>, ub, eqstr: None);
out_routes!(o_u_query, iref::uri::Query, iref::uri::QueryBuf, [u8], Vec<u8>, ub, eqstr: eq_ref_str!());
out_routes!(o_u_fragment, iref::uri::Fragment, iref::uri::FragmentBuf, [u8], Vec<u8>, ub, eqstr: eq_ref_str!());
out_routes!(o_iri, iref::Iri, iref::IriBuf, str, String, us, eqstr: eq_strs!());
out_routes!(o_iri_ref, iref::IriRef, iref::IriRefBuf, str, String, us, eqstr: eq_strs!());
out_routes!(o_i_authority, iref::iri::Authority, iref::iri::AuthorityBuf, str, String, us, eqstr: eq_ref_str!());
out_routes!(o_i_userinfo, iref::iri::UserInfo, iref::iri::UserInfoBuf, str, String, us, eqstr: eq_ref_str!());
out_routes!(o_i_host, iref::iri::Host, iref::iri::HostBuf, str, String, us, eqstr: eq_ref_str!());
out_routes!(o_i_path, iref::iri::Path, iref::iri::PathBuf, str, String, us, eqstr: eq_strs!());
out_routes!(o_i_segment, iref::iri::Segment, iref::iri::SegmentBuf, str, String, us, eqstr: None);
out_routes!(o_i_query, iref::iri::Query, iref::iri::QueryBuf, str, String, us, eqstr: eq_ref_str!());
out_routes!(o_i_fragment, iref::iri::Fragment, iref::iri::FragmentBuf, str, String, us, eqstr: eq_ref_str!());

/// AsRef / Borrow views into the library's OTHER types (URI as reference, URI as IRI, ...) keep the text.
fn cross_views(ty: Ty, t: &str, cx: &mut Ctx) -> Result<(), Failure> {
	use iref::{Iri, IriBuf, IriRef, Uri, UriBuf, UriRef, UriRefBuf};
	use std::borrow::Borrow;
	let mut views: Vec<(&'static str, Vec<u8>)> = vec![];
	match ty {
		Ty::Uri => {
			let v = Uri::new(t.as_bytes()).map_err(|_| Failure::new("harness", "rejected"))?;
			let o: UriBuf = v.to_owned();
			views.push(("Uri: AsRef<UriRef>", AsRef::<UriRef>::as_ref(v).as_bytes().to_vec()));
			views.push(("Uri: AsRef<Iri>", AsRef::<Iri>::as_ref(v).as_bytes().to_vec()));
			views.push(("Uri: AsRef<IriRef>", AsRef::<IriRef>::as_ref(v).as_bytes().to_vec()));
			views.push(("Uri: Borrow<UriRef>", Borrow::<UriRef>::borrow(v).as_bytes().to_vec()));
			views.push(("Uri: Borrow<Iri>", Borrow::<Iri>::borrow(v).as_bytes().to_vec()));
			views.push(("Uri: Borrow<IriRef>", Borrow::<IriRef>::borrow(v).as_bytes().to_vec()));
			views.push(("UriBuf: AsRef<UriRef>", AsRef::<UriRef>::as_ref(&o).as_bytes().to_vec()));
			views.push(("UriBuf: AsRef<Iri>", AsRef::<Iri>::as_ref(&o).as_bytes().to_vec()));
			views.push(("UriBuf: AsRef<IriRef>", AsRef::<IriRef>::as_ref(&o).as_bytes().to_vec()));
			views.push(("UriBuf: Borrow<UriRef>", Borrow::<UriRef>::borrow(&o).as_bytes().to_vec()));
			views.push(("UriBuf: Borrow<Iri>", Borrow::<Iri>::borrow(&o).as_bytes().to_vec()));
			views.push(("UriBuf: Borrow<IriRef>", Borrow::<IriRef>::borrow(&o).as_bytes().to_vec()));
			views.push(("Uri: as_uri_ref", v.as_uri_ref().as_bytes().to_vec()));
			views.push(("Uri: as_iri", v.as_iri().as_bytes().to_vec()));
			views.push(("Uri: as_iri_ref", v.as_iri_ref().as_bytes().to_vec()));
		}
		Ty::UriRef => {
			let v = UriRef::new(t.as_bytes()).map_err(|_| Failure::new("harness", "rejected"))?;
			let o: UriRefBuf = v.to_owned();
			views.push(("UriRef: AsRef<IriRef>", AsRef::<IriRef>::as_ref(v).as_bytes().to_vec()));
			views.push(("UriRefBuf: AsRef<IriRef>", AsRef::<IriRef>::as_ref(&o).as_bytes().to_vec()));
			views.push(("UriRef: as_iri_ref", v.as_iri_ref().as_bytes().to_vec()));
		}
		Ty::Iri => {
			let v = Iri::new(t).map_err(|_| Failure::new("harness", "rejected"))?;
			let o: IriBuf = v.to_owned();
			views.push(("Iri: AsRef<IriRef>", AsRef::<IriRef>::as_ref(v).as_bytes().to_vec()));
			views.push(("Iri: Borrow<IriRef>", Borrow::<IriRef>::borrow(v).as_bytes().to_vec()));
			views.push(("IriBuf: AsRef<IriRef>", AsRef::<IriRef>::as_ref(&o).as_bytes().to_vec()));
			views.push(("IriBuf: Borrow<IriRef>", Borrow::<IriRef>::borrow(&o).as_bytes().to_vec()));
			views.push(("Iri: as_iri_ref", v.as_iri_ref().as_bytes().to_vec()));
		}
		_ => {}
	}
	for (name, got) in views {
		ensure!(got == t.as_bytes(), format!("out:{name}"), "{name}: {:?} instead of {:?}", String::from_utf8_lossy(&got), t);
		// the value handed out by an (unchecked) view into ANOTHER type is one the checked constructor of that
		// type accepts: otherwise an ill-formed value has been obtained, whose own text cannot be read back
		let target_ok = match std::str::from_utf8(&got) {
			Ok(s) if name.ends_with("Iri>") || name.ends_with("as_iri") => Iri::new(s).is_ok(),
			Ok(s) if name.ends_with("IriRef>") || name.ends_with("as_iri_ref") => IriRef::new(s).is_ok(),
			Ok(s) if name.ends_with("UriRef>") || name.ends_with("as_uri_ref") => UriRef::new(s).is_ok(),
			Ok(_) => true,
			Err(_) => false,
		};
		ensure!(target_ok, format!("view-not-valid-in-target-type:{name}"), "{name}: the view of {:?} is a value its own type's checked constructor rejects", t);
		cx.obs(2);
	}
	Ok(())
}

fn out(ty: Ty, t: &str, variant: Option<&str>, cx: &mut Ctx) -> Result<(), Failure> {
	cross_views(ty, t, cx)?;
	match ty {
		Ty::Uri => o_uri(ty, t, variant, cx),
		Ty::UriRef => o_uri_ref(ty, t, variant, cx),
		Ty::UScheme => o_u_scheme(ty, t, variant, cx),
		Ty::UAuthority => o_u_authority(ty, t, variant, cx),
		Ty::UUserInfo => o_u_userinfo(ty, t, variant, cx),
		Ty::UHost => o_u_host(ty, t, variant, cx),
		Ty::UPort => o_u_port(ty, t, variant, cx),
		Ty::UPath => o_u_path(ty, t, variant, cx),
		Ty::USegment => o_u_segment(ty, t, variant, cx),
		Ty::UQuery => o_u_query(ty, t, variant, cx),
		Ty::UFragment => o_u_fragment(ty, t, variant, cx),
		Ty::Iri => o_iri(ty, t, variant, cx),
		Ty::IriRef => o_iri_ref(ty, t, variant, cx),
		Ty::IAuthority => o_i_authority(ty, t, variant, cx),
		Ty::IUserInfo => o_i_userinfo(ty, t, variant, cx),
		Ty::IHost => o_i_host(ty, t, variant, cx),
		Ty::IPath => o_i_path(ty, t, variant, cx),
		Ty::ISegment => o_i_segment(ty, t, variant, cx),
		Ty::IQuery => o_i_query(ty, t, variant, cx),
		Ty::IFragment => o_i_fragment(ty, t, variant, cx),
	}
}

/// serde's value deserialisers: strings and byte strings, borrowed and owned.
macro_rules! de_routes {
	($name:ident, $T:ty, $TBuf:ty) => {
		fn $name(ty: Ty, input: &[u8], exp: bool, cx: &mut Ctx) -> Result<(), Failure> {
			let n = ty.name();
			macro_rules! judge {
				($route:expr, $res:expr) => {{
					match $res {
						Ok(v) => {
							ensure!(exp, format!("de-accepts-invalid:{}", $route), "{n} via {}: accepts {:02x?} / {:?}, which the checked constructor rejects", $route, input, String::from_utf8_lossy(input));
							ensure!(v.as_bytes() == input, format!("de-text-changed:{}", $route), "{n} via {}: text {:?} instead of {:?}", $route, String::from_utf8_lossy(v.as_bytes()), String::from_utf8_lossy(input));
						}
						Err(_) => ensure!(!exp, format!("de-rejects-valid:{}", $route), "{n} via {}: rejects {:?}, which the checked constructor accepts", $route, String::from_utf8_lossy(input)),
					}
					cx.obs(1);
				}};
			}
			// byte-string routes (any bytes)
			judge!("BytesDeserializer -> owned", <$TBuf>::deserialize(BytesDeserializer::<DeError>::new(input)));
			judge!("BorrowedBytesDeserializer -> owned", <$TBuf>::deserialize(BorrowedBytesDeserializer::<DeError>::new(input)));
			judge!("BorrowedBytesDeserializer -> borrowed", <&$T>::deserialize(BorrowedBytesDeserializer::<DeError>::new(input)));
			if let Ok(s) = std::str::from_utf8(input) {
				judge!("StrDeserializer -> owned", <$TBuf>::deserialize(StrDeserializer::<DeError>::new(s)));
				judge!("StringDeserializer -> owned", <$TBuf>::deserialize(StringDeserializer::<DeError>::new(s.to_string())));
				judge!("BorrowedStrDeserializer -> owned", <$TBuf>::deserialize(BorrowedStrDeserializer::<DeError>::new(s)));
				judge!("BorrowedStrDeserializer -> borrowed", <&$T>::deserialize(BorrowedStrDeserializer::<DeError>::new(s)));
				judge!("IntoDeserializer<&str> -> owned", <$TBuf>::deserialize(IntoDeserializer::<DeError>::into_deserializer(s)));
				let json = serde_json::to_vec(s).unwrap();
				judge!("serde_json::from_slice -> owned", serde_json::from_slice::<$TBuf>(&json));
				judge!("serde_json::from_value -> owned", serde_json::from_value::<$TBuf>(serde_json::Value::String(s.to_string())));
				if json.len() == s.len() + 2 {
					judge!("serde_json::from_slice -> borrowed", serde_json::from_slice::<&$T>(&json));
				}
			}
			// tokens that are not text at all (integers, floats, booleans, characters, unit, sequences): whatever a
			// Deserialize impl makes of them, an Ok result must hold text the checked constructor accepts
			{
				use serde::de::value::{BoolDeserializer, CharDeserializer, F64Deserializer, I64Deserializer, U64Deserializer, UnitDeserializer, I8Deserializer, U16Deserializer, I128Deserializer};
				let k = input.iter().fold(input.len() as u64, |a, b| a.wrapping_mul(131).wrapping_add(*b as u64));
				let ints: [i64; 8] = [-1, 0, -(k as i64 & 0xffff) - 1, (k & 0xffff) as i64, 80, i64::MIN, i64::MAX, -80];
				macro_rules! token {
					($route:expr, $res:expr) => {{
						if let Ok(v) = $res {
							ensure!(<$T>::new(v.as_str()).is_ok(), format!("de-nontext-token-invalid:{}", $route.split('(').next().unwrap_or("")), "{n} via {}: Ok value with text {:?}, which the checked constructor rejects", $route, v.as_str());
						}
						cx.obs(1);
					}};
				}
				for x in ints {
					token!(format!("I64Deserializer({x}) -> owned"), <$TBuf>::deserialize(I64Deserializer::<DeError>::new(x)));
					token!(format!("serde_json number({x}) -> owned"), serde_json::from_value::<$TBuf>(serde_json::Value::from(x)));
					token!(format!("I128Deserializer({x}) -> owned"), <$TBuf>::deserialize(I128Deserializer::<DeError>::new(x as i128 * 3)));
				}
				token!("I8Deserializer(-7) -> owned", <$TBuf>::deserialize(I8Deserializer::<DeError>::new(-7)));
				token!("U16Deserializer -> owned", <$TBuf>::deserialize(U16Deserializer::<DeError>::new(k as u16)));
				token!("U64Deserializer -> owned", <$TBuf>::deserialize(U64Deserializer::<DeError>::new(k)));
				token!("U64Deserializer(MAX) -> owned", <$TBuf>::deserialize(U64Deserializer::<DeError>::new(u64::MAX)));
				for f in [-1.5f64, 0.0, 8080.0, 1e300, f64::NAN, f64::NEG_INFINITY] {
					token!(format!("F64Deserializer({f}) -> owned"), <$TBuf>::deserialize(F64Deserializer::<DeError>::new(f)));
				}
				token!("BoolDeserializer -> owned", <$TBuf>::deserialize(BoolDeserializer::<DeError>::new(k & 1 == 0)));
				for c in [' ', '%', '#', '-', char::from_u32(0xE000 + (k as u32 & 0xff)).unwrap_or('x'), '\u{e0001}'] {
					token!(format!("CharDeserializer({c:?}) -> owned"), <$TBuf>::deserialize(CharDeserializer::<DeError>::new(c)));
				}
				token!("UnitDeserializer -> owned", <$TBuf>::deserialize(UnitDeserializer::<DeError>::new()));
				token!("serde_json null -> owned", serde_json::from_value::<$TBuf>(serde_json::Value::Null));
				token!("serde_json array -> owned", serde_json::from_value::<$TBuf>(serde_json::json!([-1, "a b"])));
				token!("serde_json object -> owned", serde_json::from_value::<$TBuf>(serde_json::json!({"port": -1})));
			}
			Ok(())
		}
	};
}

de_routes!(d_uri, iref::Uri, iref::UriBuf);
de_routes!(d_uri_ref, iref::UriRef, iref::UriRefBuf);
de_routes!(d_u_scheme, iref::uri::Scheme, iref::uri::SchemeBuf);
de_routes!(d_u_authority, iref::uri::Authority, iref::uri::AuthorityBuf);
de_routes!(d_u_userinfo, iref::uri::UserInfo, iref::uri::UserInfoBuf);
de_routes!(d_u_host, iref::uri::Host, iref::uri::HostBuf);
de_routes!(d_u_port, iref::uri::Port, iref::uri::PortBuf);
de_routes!(d_u_path, iref::uri::Path, iref::uri::PathBuf);
de_routes!(d_u_segment, iref::uri::Segment, iref::uri::SegmentBuf);
de_routes!(d_u_query, iref::uri::Query, iref::uri::QueryBuf);
de_routes!(d_u_fragment, iref::uri::Fragment, iref::uri::FragmentBuf);
de_routes!(d_iri, iref::Iri, iref::IriBuf);
de_routes!(d_iri_ref, iref::IriRef, iref::IriRefBuf);
de_routes!(d_i_authority, iref::iri::Authority, iref::iri::AuthorityBuf);
de_routes!(d_i_userinfo, iref::iri::UserInfo, iref::iri::UserInfoBuf);
de_routes!(d_i_host, iref::iri::Host, iref::iri::HostBuf);
de_routes!(d_i_path, iref::iri::Path, iref::iri::PathBuf);
de_routes!(d_i_segment, iref::iri::Segment, iref::iri::SegmentBuf);
de_routes!(d_i_query, iref::iri::Query, iref::iri::QueryBuf);
de_routes!(d_i_fragment, iref::iri::Fragment, iref::iri::FragmentBuf);

fn de(ty: Ty, input: &[u8], exp: bool, cx: &mut Ctx) -> Result<(), Failure> {
	match ty {
		Ty::Uri => d_uri(ty, input, exp, cx),
		Ty::UriRef => d_uri_ref(ty, input, exp, cx),
		Ty::UScheme => d_u_scheme(ty, input, exp, cx),
		Ty::UAuthority => d_u_authority(ty, input, exp, cx),
		Ty::UUserInfo => d_u_userinfo(ty, input, exp, cx),
		Ty::UHost => d_u_host(ty, input, exp, cx),
		Ty::UPort => d_u_port(ty, input, exp, cx),
		Ty::UPath => d_u_path(ty, input, exp, cx),
		Ty::USegment => d_u_segment(ty, input, exp, cx),
		Ty::UQuery => d_u_query(ty, input, exp, cx),
		Ty::UFragment => d_u_fragment(ty, input, exp, cx),
		Ty::Iri => d_iri(ty, input, exp, cx),
		Ty::IriRef => d_iri_ref(ty, input, exp, cx),
		Ty::IAuthority => d_i_authority(ty, input, exp, cx),
		Ty::IUserInfo => d_i_userinfo(ty, input, exp, cx),
		Ty::IHost => d_i_host(ty, input, exp, cx),
		Ty::IPath => d_i_path(ty, input, exp, cx),
		Ty::ISegment => d_i_segment(ty, input, exp, cx),
		Ty::IQuery => d_i_query(ty, input, exp, cx),
		Ty::IFragment => d_i_fragment(ty, input, exp, cx),
	}
}

fn kind_of(ty: Ty) -> Option<cmpgen::Kind> {
	use cmpgen::Kind::*;
	Some(match ty {
		Ty::Uri | Ty::Iri => Full,
		Ty::UriRef | Ty::IriRef => Reference,
		Ty::UAuthority | Ty::IAuthority => Authority,
		Ty::UPath | Ty::IPath => Path,
		Ty::UHost | Ty::IHost => Host,
		Ty::UUserInfo | Ty::IUserInfo => UserInfo,
		Ty::UQuery | Ty::IQuery => Query,
		Ty::UFragment | Ty::IFragment => Fragment,
		_ => return None,
	})
}

fn structural(ty: Ty) -> BoxedStrategy<String> {
	let f = if ty.is_bytes() { Fam::Uri } else { Fam::Iri };
	let o = Opt::new(f).with_nonutf8(true);
	match ty {
		Ty::Uri | Ty::Iri => gen::reference(o, true),
		Ty::UriRef | Ty::IriRef => gen::reference(o, false),
		Ty::UScheme => gen::scheme(),
		Ty::UAuthority | Ty::IAuthority => gen::authority(o),
		Ty::UUserInfo | Ty::IUserInfo => gen::userinfo(o),
		Ty::UHost | Ty::IHost => gen::host(o),
		Ty::UPort => gen::port(),
		Ty::UPath | Ty::IPath => gen::path(o),
		Ty::USegment | Ty::ISegment => gen::segment(o),
		Ty::UQuery | Ty::IQuery => gen::query(o),
		Ty::UFragment | Ty::IFragment => gen::fragment(o),
	}
}

impl Prop for C14 {
	type Case = Case;
	const ID: &'static str = "C14";

	fn rule() -> String {
		"cases = (type in the 20 validated types, input: structural generator output, grammar derivations, 1-3 edit mutants, random byte strings incl. ill-formed UTF-8, optional equivalent-but-different spelling). Routes OUT on accepted inputs (30 per type): Display, Debug, as_str, as_bytes, AsRef<str|[u8]>, Borrow<raw|T>, From<&T> for &raw/&str, to_owned, Clone, Deref, into_string, into_bytes, From<Buf> for String/Vec, serde_json::to_string (borrowed and owned), again after ==/hash; value == plain str/String/bytes must be PLAIN text equality (own text equal, an equivalent-but-different spelling and text+'x' unequal). Routes IN (every input): the C01 routes (new, validate, Buf::new, TryFrom x4, FromStr, from_vec, serde_json borrowed/owned) plus serde value deserialisers StrDeserializer, StringDeserializer, BorrowedStrDeserializer, BytesDeserializer, BorrowedBytesDeserializer, IntoDeserializer, serde_json::from_slice / from_value into owned and borrowed targets: accept IFF the checked constructor accepts, same text; ~50 NON-TEXT tokens per case (I8/I64/I128/U16/U64/F64/Bool/Char/Unit deserialisers, JSON numbers, null, arrays, objects) into every owned type: an Ok result must hold text the checked constructor accepts. Non-trivial: an invalid input through a (de)serialisation route, or a valid non-ASCII / pct-bearing value.".into()
	}

	fn assumptions() -> Vec<String> {
		vec!["routes-in are judged against the library's checked constructor (its agreement with the RFC grammar is C01)".into(),
			"the borrowed serde target is only asked to borrow escape-free JSON strings (serde's documented limit)".into()]
	}

	fn cases(tier: Tier) -> u64 {
		tier.pick(150_000, 3_000_000)
	}

	fn strategy(_tier: Tier) -> BoxedStrategy<Case> {
		let ty = || select(ALL_TYPES.to_vec());
		let s1 = (ty(), vec(gen::variant(), 1..=2)).prop_flat_map(|(ty, vars)| {
			structural(ty).prop_map(move |s| {
				let variant = kind_of(ty).map(|k| {
					// equivalence-preserving kinds only
					let vs: Vec<gen::Variant> = vars
						.iter()
						.filter(|v| matches!(v, gen::Variant::Encode(..) | gen::Variant::DecodeUnreserved(_) | gen::Variant::HexCase(_) | gen::Variant::InsertDot(_) | gen::Variant::InsertUpDown(_)))
						.cloned()
						.collect();
					cmpgen::vary_pub(k, &s, &vs)
				});
				Case { ty, input: Input::Text(s), variant }
			})
		});
		let s2 = (ty(), vec(any::<u16>(), 0..100)).prop_map(|(ty, ch)| Case { ty, input: derive(ty, &ch), variant: None });
		let s3 = (ty(), vec(gen::edit(), 1..=3)).prop_flat_map(|(ty, ed)| structural(ty).prop_map(move |s| Case { ty, input: Input::Text(gen::apply_edits(&s, &ed)), variant: None }));
		let s4 = (ty(), vec(any::<u8>(), 0..8), vec(any::<u16>(), 0..30), any::<u16>()).prop_map(|(ty, junk, ch, at)| {
			let base = derive(ty, &ch);
			let mut b = base.bytes().to_vec();
			let k = ((at as usize) * (b.len() + 1)) >> 16;
			for (i, x) in junk.iter().enumerate() {
				b.insert(k + i, *x)
			}
			Case { ty, input: Input::from_bytes(b), variant: None }
		});
		let illformed: Vec<Vec<u8>> = vec![
			vec![0xC1, 0x81], vec![0xE0, 0x83, 0xA9], vec![0xF0, 0x82, 0x82, 0xAC], vec![0xF0, 0x8F, 0xBF, 0xBF], vec![0xED, 0xA0, 0x80], vec![0xF4, 0x90, 0x80, 0x80],
			vec![0xC3], vec![0xE8, 0xAA], vec![0xF0, 0x90, 0x80], vec![0x80], vec![0xFF], vec![0xC3, 0x28],
		];
		let s5 = (ty(), vec(any::<u16>(), 0..40), select(illformed), any::<u16>()).prop_map(|(ty, ch, bad, at)| {
			let base = derive(ty, &ch);
			let mut b = base.bytes().to_vec();
			if let Ok(s) = std::str::from_utf8(&b) {
				let bounds: Vec<usize> = s.char_indices().map(|(i, _)| i).chain(std::iter::once(s.len())).collect();
				let k = bounds[((at as usize) * bounds.len()) >> 16];
				for (i, x) in bad.iter().enumerate() {
					b.insert(k + i, *x)
				}
			}
			Case { ty, input: Input::from_bytes(b), variant: None }
		});
		// a valid text with an invisible character in front (byte order mark, zero-width space, ...):
		// a route that "helpfully" strips it accepts what the constructor rejects, or changes the text
		let s6 = (ty(), select(vec!["\u{feff}", "\u{200b}", "\u{2060}", " ", "\t", "\n", "\u{0}"]), any::<bool>()).prop_flat_map(|(ty, z, front)| {
			structural(ty).prop_map(move |s| Case { ty, input: Input::Text(if front { format!("{z}{s}") } else { format!("{s}{z}") }), variant: None })
		});
		let s7 = (select(vec![Ty::Uri, Ty::UriRef, Ty::Iri, Ty::IriRef, Ty::UHost, Ty::IHost, Ty::UAuthority, Ty::IAuthority]), select(gen::NEAR_VALID_HOSTS.to_vec())).prop_map(|(ty, h)| {
			let t = match ty {
				Ty::Uri | Ty::Iri => format!("s://{h}/p"),
				Ty::UriRef | Ty::IriRef => format!("//{h}"),
				Ty::UAuthority | Ty::IAuthority => format!("u@{h}:1"),
				_ => h.to_string(),
			};
			Case { ty, input: Input::Text(t), variant: None }
		});
		prop_oneof![16 => s1, 8 => s2, 8 => s3, 4 => s4, 4 => s5, 2 => s6, 1 => s7].boxed()
	}

	fn check(case: &Case, cx: &mut Ctx) -> Result<(), Failure> {
		let bytes = case.input.bytes();
		// the validating constructor's verdict
		let exp = match &case.input {
			Input::Text(s) => routes::lib_accepts(case.ty, s),
			Input::Bytes(b) => {
				if case.ty.is_bytes() {
					// constructors of the URI family take bytes
					match case.ty {
						Ty::Uri => iref::Uri::new(b.as_slice()).is_ok(),
						Ty::UriRef => iref::UriRef::new(b.as_slice()).is_ok(),
						_ => false, // component grammars are ASCII: non-UTF-8 bytes are never valid
					}
				} else {
					false
				}
			}
		};
		// routes in: the C01 set against the constructor's verdict ...
		let n = routes::run(case.ty, bytes, exp, true)?;
		cx.obs(n);
		// ... plus serde's value deserialisers
		de(case.ty, bytes, exp, cx)?;
		if exp {
			if let Input::Text(t) = &case.input {
				out(case.ty, t, case.variant.as_deref(), cx)?;
				cx.class("accepted");
				cx.nt_if(!t.is_ascii() || t.contains('%'));
				cx.class_if(!t.is_ascii(), "accepted-non-ascii");
			}
		} else {
			cx.class("rejected");
			cx.nt();
			cx.class_if(matches!(case.input, Input::Bytes(_)), "rejected-ill-formed-utf8");
		}
		Ok(())
	}

	fn floors(_tier: Tier) -> Vec<(&'static str, u64)> {
		vec![("accepted", 60_000), ("rejected", 20_000), ("rejected-ill-formed-utf8", 5_000), ("accepted-non-ascii", 7_000), ("eq-str-against-equivalent-variant", 5_000)]
	}
}
