//! C01 — parsing accepts exactly the RFC 3986/3987 language, for the 20
//! validated types and every construction route.

use proptest::collection::vec;
use proptest::prelude::*;
use proptest::sample::select;
use serde::{Deserialize, Serialize};

use crate::engine::{Ctx, Failure, Prop, Tier};
use crate::gen::{self, Fam, Opt};
use crate::oracle::abnf::{self, fast, grammar, Ty, ALL_TYPES, E};
use crate::props::routes;

#[derive(Debug, Clone, Hash, PartialEq, Eq, Serialize, Deserialize)]
pub enum Input {
	Text(String),
	/// byte string that is not UTF-8 (URI family, from_vec)
	Bytes(Vec<u8>),
}

impl Input {
	pub fn from_bytes(b: Vec<u8>) -> Input {
		match String::from_utf8(b) {
			Ok(s) => Input::Text(s),
			Err(e) => Input::Bytes(e.into_bytes()),
		}
	}
	pub fn bytes(&self) -> &[u8] {
		match self {
			Input::Text(s) => s.as_bytes(),
			Input::Bytes(b) => b,
		}
	}
}

#[derive(Debug, Clone, Copy, Hash, PartialEq, Eq, Serialize, Deserialize)]
pub enum Src {
	Sweep,
	Short,
	Addr,
	Derive,
	DeriveMutant,
	Structural,
	StructuralMutant,
	Random,
	RandomBytes,
}

#[derive(Debug, Clone, Hash, Serialize, Deserialize)]
pub struct Case {
	pub ty: Ty,
	pub input: Input,
	pub src: Src,
}

pub struct C01;

/// The oracle.
pub fn expected(ty: Ty, input: &Input) -> bool {
	match input {
		Input::Text(s) => abnf::accepts_str(ty, s),
		Input::Bytes(b) => {
			if ty.is_bytes() {
				abnf::accepts_bytes(ty, b)
			} else {
				// IRIs are sequences of Unicode scalar values: ill-formed UTF-8 is never an IRI
				false
			}
		}
	}
}

fn viable(ty: Ty, input: &Input) -> usize {
	match input {
		Input::Text(s) if !ty.is_bytes() => fast::viable_prefix(ty.rule(), s.chars().map(|c| c as u32)),
		_ if ty.is_bytes() => fast::viable_prefix(ty.rule(), input.bytes().iter().map(|b| *b as u32)),
		_ => 0,
	}
}

const ACC: [&str; 20] = [
	"accept:Uri", "accept:UriRef", "accept:Scheme", "accept:uri::Authority", "accept:uri::UserInfo", "accept:uri::Host",
	"accept:Port", "accept:uri::Path", "accept:uri::Segment", "accept:uri::Query", "accept:uri::Fragment", "accept:Iri",
	"accept:IriRef", "accept:iri::Authority", "accept:iri::UserInfo", "accept:iri::Host", "accept:iri::Path",
	"accept:iri::Segment", "accept:iri::Query", "accept:iri::Fragment",
];
const REJ: [&str; 20] = [
	"reject:Uri", "reject:UriRef", "reject:Scheme", "reject:uri::Authority", "reject:uri::UserInfo", "reject:uri::Host",
	"reject:Port", "reject:uri::Path", "reject:uri::Segment", "reject:uri::Query", "reject:uri::Fragment", "reject:Iri",
	"reject:IriRef", "reject:iri::Authority", "reject:iri::UserInfo", "reject:iri::Host", "reject:iri::Path",
	"reject:iri::Segment", "reject:iri::Query", "reject:iri::Fragment",
];

fn src_label(s: Src) -> &'static str {
	match s {
		Src::Sweep => "src:sweep",
		Src::Short => "src:short",
		Src::Addr => "src:addr",
		Src::Derive => "src:derive",
		Src::DeriveMutant => "src:derive-mutant",
		Src::Structural => "src:structural",
		Src::StructuralMutant => "src:structural-mutant",
		Src::Random => "src:random",
		Src::RandomBytes => "src:random-bytes",
	}
}

// ---------------------------------------------------------------------------
// positive sampler: random derivations of R-ABNF
// ---------------------------------------------------------------------------

struct Choices<'a> {
	v: &'a [u16],
	i: usize,
}

impl<'a> Choices<'a> {
	fn next(&mut self) -> u32 {
		let x = self.v.get(self.i).copied().unwrap_or(0);
		self.i += 1;
		x as u32
	}
}

fn derive_into(e: &E, ch: &mut Choices, out: &mut Vec<u32>, depth: usize) {
	match e {
		E::Lit(s) => {
			for c in s.bytes() {
				let flip = c.is_ascii_alphabetic() && ch.next() % 4 == 3;
				let c = if flip {
					if c.is_ascii_lowercase() { c.to_ascii_uppercase() } else { c.to_ascii_lowercase() }
				} else {
					c
				};
				out.push(c as u32)
			}
		}
		E::Rng(a, b) => {
			let k = ch.next();
			let span = b - a;
			let mut v = match k % 4 {
				0 => *a,
				1 => *b,
				2 => a + (k / 4) % (span + 1),
				_ => a + ((k as u64 * 2654435761u64) % (span as u64 + 1)) as u32,
			};
			// stay out of the surrogate gap
			if (0xD800..0xE000).contains(&v) {
				v = *a
			}
			out.push(v)
		}
		E::Cat(v) => {
			for x in v {
				derive_into(x, ch, out, depth + 1)
			}
		}
		E::Alt(v) => {
			let k = ch.next() as usize % v.len();
			derive_into(&v[k], ch, out, depth + 1)
		}
		E::Rep(min, max, x) => {
			let span = match max {
				Some(m) => m - min,
				None => {
					if depth < 6 {
						5
					} else {
						8
					}
				}
			};
			let k = ch.next() as usize;
			let n = min + if span == 0 { 0 } else { k % (span + 1) };
			for _ in 0..n {
				derive_into(x, ch, out, depth + 1)
			}
		}
		E::Ref(name) => {
			let r = grammar().rule(name).expect("rule");
			derive_into(r, ch, out, depth + 1)
		}
	}
}

pub fn derive(ty: Ty, choices: &[u16]) -> Input {
	let mut ch = Choices { v: choices, i: 0 };
	let mut toks = vec![];
	let r = grammar().rule(ty.rule()).expect("rule");
	derive_into(r, &mut ch, &mut toks, 0);
	if ty.is_bytes() {
		Input::from_bytes(toks.into_iter().map(|t| t as u8).collect())
	} else {
		Input::Text(toks.into_iter().filter_map(char::from_u32).collect())
	}
}

// ---------------------------------------------------------------------------
// structural members for each type
// ---------------------------------------------------------------------------

fn structural(ty: Ty) -> BoxedStrategy<String> {
	let f = if ty.is_bytes() { Fam::Uri } else { Fam::Iri };
	let o = Opt::new(f).with_nonutf8(true);
	match ty {
		Ty::Uri | Ty::Iri => gen::reference(o, true),
		Ty::UriRef | Ty::IriRef => gen::reference(o, false),
		Ty::UScheme => gen::scheme(),
		Ty::UAuthority | Ty::IAuthority => gen::authority(o),
		Ty::UUserInfo | Ty::IUserInfo => gen::userinfo(o),
		Ty::UHost | Ty::IHost => gen::host(o),
		Ty::UPort => gen::port(),
		Ty::UPath | Ty::IPath => gen::path(o),
		Ty::USegment | Ty::ISegment => gen::segment(o),
		Ty::UQuery | Ty::IQuery => gen::query(o),
		Ty::UFragment | Ty::IFragment => gen::fragment(o),
	}
}

fn ty_strategy() -> BoxedStrategy<Ty> {
	select(ALL_TYPES.to_vec()).boxed()
}

// ---------------------------------------------------------------------------
// enumerations
// ---------------------------------------------------------------------------

fn sweep_contexts(ty: Ty) -> Vec<(&'static str, &'static str)> {
	// (prefix, suffix) around the swept token
	let comp: Vec<(&str, &str)> = vec![("", ""), ("a", ""), ("", "a")];
	match ty {
		Ty::Uri | Ty::Iri => vec![
			("", ""),
			("s:", ""),
			("s://", ""),
			("s://", "@h"),
			("s://h:", ""),
			("s:/", ""),
			("s:?", ""),
			("s:#", ""),
			("s:a", "a"),
			("", ":"),
		],
		Ty::UriRef | Ty::IriRef => vec![
			("", ""),
			("x:", ""),
			("//", ""),
			("//", "@h"),
			("//h:", ""),
			("/", ""),
			("?", ""),
			("#", ""),
			("a", "a"),
			("", ":a"),
		],
		Ty::UAuthority | Ty::IAuthority => vec![("", ""), ("a", ""), ("", "a"), ("", "@h"), ("h:", ""), ("u@", ":1")],
		Ty::UHost | Ty::IHost => vec![("", ""), ("a", ""), ("", "a"), ("[", "]"), ("[v1.", "]"), ("[::", "]")],
		_ => comp,
	}
}

const SHORT_ALPHABET: [&str; 13] = ["a", "g", "1", "%", ":", "/", "?", "#", "@", "[", "]", ".", "\u{e9}"];

fn ipv6_shapes() -> Vec<String> {
	let mut v = vec![];
	let groups = ["1", "abcd", "12345", "A0f"];
	for l in 0..=8usize {
		for dc in 0..=2usize {
			for r in 0..=8usize {
				for v4 in [false, true] {
					for g in groups {
						let mut s = String::new();
						let lg: Vec<&str> = (0..l).map(|_| g).collect();
						s.push_str(&lg.join(":"));
						for _ in 0..dc {
							s.push_str("::")
						}
						if dc == 0 && l > 0 && (r > 0 || v4) {
							s.push(':')
						}
						let mut rg: Vec<&str> = (0..r).map(|_| g).collect();
						if v4 {
							rg.push("1.2.3.4")
						}
						s.push_str(&rg.join(":"));
						v.push(s);
					}
				}
			}
		}
	}
	v.sort();
	v.dedup();
	v
}

fn addr_cases() -> Vec<(Ty, String)> {
	let mut hosts: Vec<String> = vec![];
	for s in ipv6_shapes() {
		hosts.push(format!("[{s}]"));
	}
	// dec-octets inside an IP-literal (where they matter) and bare
	for v in 0..1000u32 {
		for lead in ["", "0"] {
			for pos in 0..4 {
				let mut o = vec!["1".to_string(), "2".to_string(), "3".to_string(), "4".to_string()];
				o[pos] = format!("{lead}{v}");
				let ip = o.join(".");
				hosts.push(format!("[::{ip}]"));
				if pos == 0 && lead.is_empty() {
					hosts.push(format!("[1:2:3:4:5:6:{ip}]"));
					hosts.push(ip.clone());
				}
			}
		}
	}
	for extra in [
		"[]", "[", "]", "[::1", "::1]", "[::1]]", "[[::1]]", "[v1.a]", "[v.a]", "[v1.]", "[v1a]", "[V1F.:]", "[vG.a]", "[v1.a/b]",
		"[v1.%41]", "[v1.\u{e9}]", "[::1%25eth0]", "[::1].", "[1.2.3.4]", "1.2.3.4.5", "1.2.3", "256.1.1.1", "01.1.1.1",
	] {
		hosts.push(extra.to_string())
	}
	let mut out = vec![];
	for h in hosts {
		out.push((Ty::UHost, h.clone()));
		out.push((Ty::IHost, h.clone()));
		out.push((Ty::UAuthority, format!("u:p@{h}:80")));
		out.push((Ty::IAuthority, format!("{h}:")));
		out.push((Ty::Uri, format!("s://{h}/p?q#f")));
		out.push((Ty::Iri, format!("s://u@{h}")));
		out.push((Ty::UriRef, format!("//{h}:1")));
		out.push((Ty::IriRef, format!("//{h}?")));
	}
	out
}

impl Prop for C01 {
	type Case = Case;
	const ID: &'static str = "C01";

	fn rule() -> String {
		"cases = (type in the 20 validated types, input). Enumerated: (a) every byte 0-255 (URI family) / every Unicode scalar value (IRI family) in each context of each type (alone, before/after an ordinary character, and in each component slot of URI/IRI/references, inside '[..]' for hosts); (b) every string of <= L items over the focused alphabet {a,g,1,%,:,/,?,#,@,[,],.,é} for every type (L=5 quick, 6 thorough); (c) all IPv6 shapes (l groups, 0-2 '::', r groups, IPv4 tail, group length 1/3/4/5) and every dec-octet 0-999 with/without leading zero at each position, as host, authority, URI and reference. Random: derivations of the reference grammar itself (positive sampler), 1-3 edit mutants of those, structural generator output and its mutants, random strings from a delimiter/boundary-code-point pool, random byte strings (ill-formed UTF-8 for the URI family and from_vec). Oracle: independent RFC 3986/3987 recogniser, both directions, plus text/payload identity, on every route (new, validate, Buf::new, TryFrom, FromStr, from_vec, serde owned+borrowed; enumerated cases use new/validate/Buf::new/from_vec only). Non-trivial: accepted, or rejected after a non-empty viable prefix. Enumerated cases are distinct by construction (counted); random cases are hashed.".into()
	}

	fn assumptions() -> Vec<String> {
		vec![
			"reference recogniser transcribed by hand from the RFC ABNF (not from the repository's grammar files), evaluated by a Thompson/lazy-DFA simulation cross-checked at start-up against a set-of-positions interpreter and against a direct IPv4/IPv6 recogniser".into(),
			"the ./check driver stamps grammar.abnf and automata/*.cbor (cargo does not track them) and forces a rebuild of iref-core when they change".into(),
		]
	}

	fn cases(tier: Tier) -> u64 {
		tier.pick(400_000, 6_000_000)
	}

	fn strategy(_tier: Tier) -> BoxedStrategy<Case> {
		let derive_s = (ty_strategy(), vec(any::<u16>(), 0..160))
			.prop_map(|(ty, ch)| Case { ty, input: derive(ty, &ch), src: Src::Derive });
		let derive_mut = (ty_strategy(), vec(any::<u16>(), 0..120), vec(gen::edit(), 1..=3)).prop_map(|(ty, ch, ed)| {
			let inp = derive(ty, &ch);
			let input = match inp {
				Input::Text(s) => Input::Text(gen::apply_edits(&s, &ed)),
				b => b,
			};
			Case { ty, input, src: Src::DeriveMutant }
		});
		let structural_s = ty_strategy()
			.prop_flat_map(|ty| structural(ty).prop_map(move |s| Case { ty, input: Input::Text(s), src: Src::Structural }));
		let structural_mut = (ty_strategy(), vec(gen::edit(), 1..=3)).prop_flat_map(|(ty, ed)| {
			structural(ty).prop_map(move |s| Case {
				ty,
				input: Input::Text(gen::apply_edits(&s, &ed)),
				src: Src::StructuralMutant,
			})
		});
		let mut pool: Vec<String> = gen::MUT_CHARS.iter().map(|s| s.to_string()).collect();
		pool.extend(["b", "c", "1", "F", "f", "-", "+", "~", "_", "!", "$", "&", "'", "(", ")", "*", ",", ";", "="].iter().map(|s| s.to_string()));
		let random = (ty_strategy(), vec(select(pool), 0..12))
			.prop_map(|(ty, v)| Case { ty, input: Input::Text(v.concat()), src: Src::Random });
		let random_bytes = (ty_strategy(), vec(any::<u8>(), 0..10), vec(any::<u16>(), 0..40), any::<u16>()).prop_map(
			|(ty, junk, ch, at)| {
				// a derivation with raw bytes spliced in (often ill-formed UTF-8)
				let base = derive(ty, &ch);
				let mut b = base.bytes().to_vec();
				let k = ((at as usize) * (b.len() + 1)) >> 16;
				for (i, x) in junk.iter().enumerate() {
					b.insert(k + i, *x)
				}
				Case { ty, input: Input::from_bytes(b), src: Src::RandomBytes }
			},
		);
		// ill-formed UTF-8 of every class (truncated, broken continuation, overlong 2/3/4 - including
		// overlong forms of characters the grammar ALLOWS -, surrogates, > U+10FFFF, F5-FF) spliced into a member
		let illformed: Vec<Vec<u8>> = vec![
			vec![0xC1, 0x81], vec![0xC0, 0xAF], vec![0xE0, 0x83, 0xA9], vec![0xE0, 0x9F, 0xBF], vec![0xF0, 0x82, 0x82, 0xAC], vec![0xF0, 0x8F, 0xBF, 0xBF],
			vec![0xF0, 0x80, 0x80, 0xAF], vec![0xED, 0xA0, 0x80], vec![0xED, 0xBF, 0xBF], vec![0xF4, 0x90, 0x80, 0x80], vec![0xF5, 0x80, 0x80, 0x80],
			vec![0xC3], vec![0xE8, 0xAA], vec![0xF0, 0x90, 0x80], vec![0x80], vec![0xBF], vec![0xFE], vec![0xFF], vec![0xC3, 0x28], vec![0xE8, 0x28, 0x9E],
			vec![0xF8, 0x88, 0x80, 0x80, 0x80], vec![0xEF, 0xBF], vec![0xE2, 0x82, 0xAC, 0x80],
		];
		let spliced = (ty_strategy(), vec(any::<u16>(), 0..60), select(illformed), any::<u16>()).prop_map(|(ty, ch, bad, at)| {
			let base = derive(ty, &ch);
			let mut b = base.bytes().to_vec();
			// insert on a character boundary of the (valid) base
			let s = String::from_utf8_lossy(&b).to_string();
			let bounds: Vec<usize> = s.char_indices().map(|(i, _)| i).chain(std::iter::once(s.len())).collect();
			let k = bounds[((at as usize) * bounds.len()) >> 16];
			if s.len() == b.len() {
				for (i, x) in bad.iter().enumerate() {
					b.insert(k + i, *x)
				}
			}
			Case { ty, input: Input::from_bytes(b), src: Src::RandomBytes }
		});
		let invisible = (ty_strategy(), select(vec!["\u{feff}", "\u{200b}", "\u{2060}", " ", "\t", "\n", "\u{0}"]), any::<bool>()).prop_flat_map(|(ty, z, front)| {
			structural(ty).prop_map(move |s| Case { ty, input: Input::Text(if front { format!("{z}{s}") } else { format!("{s}{z}") }), src: Src::StructuralMutant })
		});
		prop_oneof![
			30 => derive_s,
			20 => derive_mut,
			15 => structural_s,
			15 => structural_mut,
			10 => random,
			6 => random_bytes,
			6 => spliced,
			2 => invisible,
		]
		.boxed()
	}

	fn check(case: &Case, cx: &mut Ctx) -> Result<(), Failure> {
		let exp = expected(case.ty, &case.input);
		let all = !matches!(case.src, Src::Sweep | Src::Short);
		let n = routes::run(case.ty, case.input.bytes(), exp, all)?;
		cx.obs(n);
		if all {
			// the same verdict for the same bytes at an odd offset of a larger buffer, and in a buffer re-used
			// from the previous input of this length (the verdict may depend on nothing but the bytes)
			let m = gen::with_misaligned_bytes(case.input.bytes(), |b, k| routes::run(case.ty, b, exp, false).map_err(|f| Failure::new(format!("misaligned:{}", f.sig), format!("(input at byte offset {k} of a larger buffer) {}", f.msg))))?;
			let a = gen::with_arena_bytes(case.input.bytes(), |b| routes::run(case.ty, b, exp, false).map_err(|f| Failure::new(format!("reused-buffer:{}", f.sig), format!("(input in a buffer re-used from the previous input of the same length) {}", f.msg))))?;
			cx.obs(m + a);
		}
		if n == 0 {
			cx.class("no-route (non-UTF-8 input for an IRI component type)");
			return Ok(());
		}
		let k = case.ty as usize;
		if exp {
			cx.class(ACC[k]);
			cx.nt();
		} else {
			cx.class(REJ[k]);
			cx.nt_if(viable(case.ty, &case.input) >= 1);
		}
		cx.class(src_label(case.src));
		if let Input::Bytes(_) = case.input {
			cx.class("ill-formed-utf8");
		}
		let b = case.input.bytes();
		cx.class_if(exp && b.contains(&b'%'), "accepted-with-pct");
		cx.class_if(exp && b.contains(&b'['), "accepted-with-ip-literal");
		cx.class_if(exp && !b.is_ascii(), "accepted-non-ascii");
		Ok(())
	}

	fn enumerate(tier: Tier, shard: usize, nshards: usize, f: &mut dyn FnMut(Case, bool) -> bool) -> Vec<&'static str> {
		// (a) single-token sweep
		for ty in ALL_TYPES {
			let ctxs = sweep_contexts(ty);
			if ty.is_bytes() {
				for b in 0..=255u32 {
					if b as usize % nshards != shard {
						continue;
					}
					for (pre, suf) in &ctxs {
						let mut v = pre.as_bytes().to_vec();
						v.push(b as u8);
						v.extend_from_slice(suf.as_bytes());
						if !f(Case { ty, input: Input::from_bytes(v), src: Src::Sweep }, false) {
							return vec![];
						}
					}
				}
				// all byte pairs, alone
				for p in 0..65536u32 {
					if p as usize % nshards != shard {
						continue;
					}
					let v = vec![(p >> 8) as u8, p as u8];
					if !f(Case { ty, input: Input::from_bytes(v), src: Src::Sweep }, false) {
						return vec![];
					}
				}
			} else {
				for c in 0..0x110000u32 {
					if c as usize % nshards != shard {
						continue;
					}
					let ch = match char::from_u32(c) {
						Some(ch) => ch,
						None => continue,
					};
					for (pre, suf) in &ctxs {
						let mut s = String::with_capacity(pre.len() + suf.len() + 4);
						s.push_str(pre);
						s.push(ch);
						s.push_str(suf);
						if !f(Case { ty, input: Input::Text(s), src: Src::Sweep }, false) {
							return vec![];
						}
					}
				}
			}
		}
		// (b) short strings over the focused alphabet
		let l = tier.pick(5, 6);
		for ty in ALL_TYPES {
			let k = if ty.is_bytes() { 12u64 } else { 13u64 };
			let mut index = 0u64;
			for len in 0..=l {
				let total = k.pow(len as u32);
				for m0 in 0..total {
					index += 1;
					if index as usize % nshards != shard {
						continue;
					}
					let mut m = m0;
					let mut s = String::new();
					for _ in 0..len {
						s.push_str(SHORT_ALPHABET[(m % k) as usize]);
						m /= k;
					}
					if !f(Case { ty, input: Input::Text(s), src: Src::Short }, false) {
						return vec![];
					}
				}
			}
		}
		// (c) address shapes
		for (i, (ty, s)) in addr_cases().into_iter().enumerate() {
			if i % nshards != shard {
				continue;
			}
			if !f(Case { ty, input: Input::Text(s), src: Src::Addr }, false) {
				return vec![];
			}
		}
		// (d) every single-byte insertion and substitution at every position of every host exemplar (all IP-literal
		// shapes with last groups of 1-4 digits, IPv4 tails, IPvFuture, dotted decimals, escapes), in the eight
		// host-bearing types: one wrong transition deep inside the automaton is one of these strings
		{
			let mut hosts: Vec<String> = gen::IPV6_POOL.iter().map(|s| s.to_string()).collect();
			for l in 1..=4usize {
				let g = &"abcd"[..l];
				hosts.push(format!("[1:2:3:4:5:6:7:{g}]"));
				hosts.push(format!("[::1:2:3:4:5:6:{g}]"));
				hosts.push(format!("[{g}::]"));
				hosts.push(format!("[1:2:3:4:5:6::{g}]"));
				hosts.push(format!("[::{g}:1.2.3.4]"));
				hosts.push(format!("[v{g}.x:y]"));
			}
			for h in ["255.249.199.9", "1.2.3.4", "a.b-c_d~e", "%41%C3%A9", "[::ffff:255.249.199.99]", "[1:2:3:4:5:6:255.255.255.255]", "[vFF.a]", "example.org"] {
				hosts.push(h.to_string());
			}
			let wraps: [(Ty, &str, &str); 8] = [
				(Ty::UHost, "", ""), (Ty::IHost, "", ""), (Ty::UAuthority, "u:p@", ":80"), (Ty::IAuthority, "u:p@", ":80"),
				(Ty::Uri, "s://u@", ":80/p?q#f"), (Ty::Iri, "s://u@", ":80/p?q#f"), (Ty::UriRef, "//", "/p"), (Ty::IriRef, "//", "/p"),
			];
			let mut idx = 0usize;
			for h in &hosts {
				for (ty, pre, suf) in wraps {
					for pos in 0..=h.len() {
						idx += 1;
						if idx % nshards != shard {
							continue;
						}
						for b in 0..=255u8 {
							for subst in [false, true] {
								if subst && pos == h.len() {
									continue;
								}
								let hb = h.as_bytes();
								let mut v = pre.as_bytes().to_vec();
								v.extend_from_slice(&hb[..pos]);
								v.push(b);
								v.extend_from_slice(&hb[pos + subst as usize..]);
								v.extend_from_slice(suf.as_bytes());
								if !f(Case { ty, input: Input::from_bytes(v), src: Src::Sweep }, false) {
									return vec![];
								}
							}
						}
					}
				}
			}
		}
		vec![
			"every single-byte insertion and substitution at every position of ~55 host exemplars in the 8 host-bearing types",
			"every byte / Unicode scalar value in every context of every type",
			"all byte pairs for the URI-family types",
			"all strings of <= L items over the focused alphabet, every type",
			"all IPv6 shapes and dec-octets 0-999 in host/authority/URI/reference position",
		]
	}

	fn floors(_tier: Tier) -> Vec<(&'static str, u64)> {
		let mut v: Vec<(&'static str, u64)> = vec![];
		for k in 0..20 {
			v.push((ACC[k], 10_000));
			v.push((REJ[k], 10_000));
		}
		v.extend([
			("src:derive", 50_000),
			("src:derive-mutant", 30_000),
			("src:structural", 30_000),
			("src:random-bytes", 20_000),
			("ill-formed-utf8", 10_000),
			("accepted-with-pct", 20_000),
			("accepted-with-ip-literal", 5_000),
			("accepted-non-ascii", 100_000),
		]);
		v
	}
}
