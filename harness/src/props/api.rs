//! Family-generic plumbing.

/// Expands `$body` twice: once in a module where the URI-family names are in
/// scope, once with the IRI-family names, under the common aliases `Ri`,
/// `RiRef`, `RiBuf`, `RiRefBuf`, `RiParts`, `RiRefParts` (component types keep
/// their own names: `Path`, `Segment`, `Authority`, ...).
#[macro_export]
macro_rules! both_families {
	([$($dep:ident),*] $($body:tt)*) => {
		$crate::both_families!(@gen [$($dep),*] $($body)*);
	};
	(@gen [$($dep:ident),*] $($body:tt)*) => {
		pub mod u {
			#![allow(unused_imports, dead_code)]
			$(use $crate::props::$dep::u as $dep;)*
			use iref::uri::*;
			pub use iref::{Uri as Ri, UriRef as RiRef, UriBuf as RiBuf, UriRefBuf as RiRefBuf};
			pub use iref::uri::{UriParts as RiParts, UriRefParts as RiRefParts};
			pub use iref::uri::{InvalidUri as InvalidRi, InvalidUriRef as InvalidRiRef};
			pub type Raw = [u8];
			pub type OwnedRaw = Vec<u8>;
			pub const FAM: $crate::gen::Fam = $crate::gen::Fam::Uri;

			use super::*;
			$($body)*
		}
		pub mod i {
			#![allow(unused_imports, dead_code)]
			$(use $crate::props::$dep::i as $dep;)*
			use iref::iri::*;
			pub use iref::{Iri as Ri, IriRef as RiRef, IriBuf as RiBuf, IriRefBuf as RiRefBuf};
			pub use iref::iri::{IriParts as RiParts, IriRefParts as RiRefParts};
			pub use iref::iri::{InvalidIri as InvalidRi, InvalidIriRef as InvalidRiRef};
			pub type Raw = str;
			pub type OwnedRaw = String;
			pub const FAM: $crate::gen::Fam = $crate::gen::Fam::Iri;

			use super::*;
			$($body)*
		}
	};
	($($body:tt)*) => {
		$crate::both_families!(@gen [] $($body)*);
	};
}

/// Dispatches on a `Fam` value to `u::$f` / `i::$f`.
#[macro_export]
macro_rules! by_fam {
	($fam:expr, $f:ident ( $($arg:expr),* )) => {
		match $fam {
			$crate::gen::Fam::Uri => u::$f($($arg),*),
			$crate::gen::Fam::Iri => i::$f($($arg),*),
		}
	};
}

pub fn opt_s<T: AsRef<str> + ?Sized>(o: Option<&T>) -> Option<String> {
	o.map(|x| x.as_ref().to_string())
}

/// Address range check: `inner` lies within `outer`.
pub fn within(outer: &[u8], inner: &[u8]) -> bool {
	let o = outer.as_ptr() as usize;
	let i = inner.as_ptr() as usize;
	i >= o && i + inner.len() <= o + outer.len()
}

pub fn offset_in(outer: &[u8], inner: &[u8]) -> Option<usize> {
	if within(outer, inner) {
		Some(inner.as_ptr() as usize - outer.as_ptr() as usize)
	} else {
		None
	}
}
