//! C09 — dot-segment normalisation follows RFC 3986 5.2.4 and Errata 4547.

use proptest::prelude::*;
use serde::{Deserialize, Serialize};

use crate::engine::{guard, Ctx, Failure, Prop, Tier};
use crate::gen::{self, Fam, Opt};
use crate::oracle::norm;
use crate::oracle::split::{recompose, segs, split, Parts};
use crate::props::c10::{embed, Embed};
use crate::{both_families, by_fam, ensure, fail, soft_fail};

#[derive(Debug, Clone, Hash, Serialize, Deserialize)]
pub struct Case {
	pub fam: Fam,
	pub embed: Option<Embed>,
	pub abs: bool,
	pub segs: Vec<String>,
	/// `Some(n)`: the FIRST segment stands for itself repeated n times (inputs beyond 4 GiB; judged by a
	/// lean dedicated routine, not by the general model)
	#[serde(default)]
	pub repeat_first: Option<usize>,
}

pub struct C09;

pub const DROP_SIG: &str = "normalized-drops-leading-empty-segments";

/// The expected list under the recorded quirk (an empty segment that arrives
/// while the list is empty is ignored) - used ONLY to attribute a failure to
/// the known finding, never as the oracle.
pub fn quirk_e(abs: bool, s: &[String]) -> Vec<String> {
	let mut l: Vec<String> = vec![];
	let mut open = false;
	for x in s {
		match x.as_str() {
			"." => open = true,
			".." => {
				if l.is_empty() {
					if !abs {
						l.push("..".into())
					}
				} else if l.last().map(|y| y == "..").unwrap_or(false) {
					l.push("..".into())
				} else {
					l.pop();
				}
				open = true
			}
			_ => {
				if !(x.is_empty() && l.is_empty()) {
					l.push(x.clone())
				}
				open = false
			}
		}
	}
	if open && !l.is_empty() {
		l.push(String::new())
	}
	l
}

both_families! {
	fn judge_copy(ctx: &str, text: &str, abs: bool, s: &[String], cx: &mut Ctx) -> Result<(), Failure> {
		let p = match Path::new(text) { Ok(p) => p, Err(_) => return Ok(()) /* a path component that is not a valid Path is C02's subject */ };
		let n = norm::n(abs, s);
		let e = norm::e(abs, s);
		// (1) normalized_segments
		let it = p.normalized_segments();
		let len = it.len();
		let got: Vec<String> = it.map(|x| x.as_str().to_string()).collect();
		ensure!(got == n, "normalized_segments", "{ctx} {:?}: normalized_segments() = {:?}, model N = {:?}", text, got, n);
		ensure!(len == n.len(), "normalized_segments-len", "{ctx} {:?}: normalized_segments().len() = {}, model |N| = {}", text, len, n.len());
		let rev: Vec<String> = p.normalized_segments().rev().map(|x| x.as_str().to_string()).collect();
		let mut rn = n.clone(); rn.reverse();
		ensure!(rev == rn, "normalized_segments-rev", "{ctx} {:?}: reversed normalized_segments() = {:?}, model {:?}", text, rev, rn);
		// internal iteration (fold / rfold / try_fold / try_rfold / for_each are separately overridable) and mixed ends
		{
			let st = |x: &Segment| x.as_str().to_string();
			let f: Vec<String> = p.normalized_segments().fold(Vec::new(), |mut v, x| { v.push(st(x)); v });
			ensure!(f == n, "normalized_segments-fold", "{ctx} {:?}: normalized_segments().fold(..) visits {:?}, model N = {:?}", text, f, n);
			let rf: Vec<String> = p.normalized_segments().rfold(Vec::new(), |mut v, x| { v.push(st(x)); v });
			ensure!(rf == rn, "normalized_segments-rfold", "{ctx} {:?}: normalized_segments().rfold(..) visits {:?}, model reversed {:?}", text, rf, rn);
			let mut fe: Vec<String> = Vec::new();
			p.normalized_segments().rev().for_each(|x| fe.push(st(x)));
			ensure!(fe == rn, "normalized_segments-rev-for_each", "{ctx} {:?}: normalized_segments().rev().for_each(..) visits {:?}, model reversed {:?}", text, fe, rn);
			let mut tf: Vec<String> = Vec::new();
			let _ = p.normalized_segments().try_fold((), |(), x| { tf.push(st(x)); Some(()) });
			let mut trf: Vec<String> = Vec::new();
			let _ = p.normalized_segments().try_rfold((), |(), x| { trf.push(st(x)); Some(()) });
			ensure!(tf == n && trf == rn, "normalized_segments-try_fold", "{ctx} {:?}: try_fold visits {:?}, try_rfold visits {:?}, model N = {:?}", text, tf, trf, n);
			let (l1, l2) = (p.normalized_segments().last().map(st), p.normalized_segments().rev().last().map(st));
			ensure!(l1.as_ref() == n.last() && l2.as_ref() == n.first(), "normalized_segments-last", "{ctx} {:?}: last() = {:?}, rev().last() = {:?}, model N = {:?}", text, l1, l2, n);
			// alternate ends: front, back, front, ...
			let mut it = p.normalized_segments();
			let (mut front, mut back): (Vec<String>, Vec<String>) = (Vec::new(), Vec::new());
			let mut turn = true;
			loop {
				let x = if turn { it.next() } else { it.next_back() };
				match x { Some(x) => if turn { front.push(st(x)) } else { back.push(st(x)) }, None => break }
				turn = !turn;
				if front.len() + back.len() > n.len() + 2 { break }
			}
			back.reverse();
			front.extend(back);
			ensure!(front == n, "normalized_segments-alternating", "{ctx} {:?}: taking normalized segments alternately from both ends gives {:?}, model N = {:?}", text, front, n);
		}
		// (2) normalized copy
		let nb = guard(|| p.normalized()).map_err(|pi| Failure::new(format!("panic-normalized:{}", pi.loc), format!("{ctx} {:?}: normalized() panicked at {}: {}", text, pi.loc, pi.msg)))?;
		let nt = nb.as_str().to_string();
		ensure!(Path::new(nt.as_str()).is_ok(), "normalized-invalid", "{ctx} {:?}: normalized() = {:?} is not a valid path", text, nt);
		let ok = nb.is_absolute() == abs && norm::accept_textual(&nt, abs, &e);
		if !ok {
			let q = quirk_e(abs, s);
			if nb.is_absolute() == abs && q != e && norm::accept_textual(&nt, abs, &q) {
				soft_fail!(cx, DROP_SIG, "{ctx} {:?}: normalized() = {:?}; RFC 3986 5.2.4 gives segments {:?} - an empty segment that arrived on an empty path was ignored", text, nt, e);
			} else {
				let sig = if nb.is_absolute() != abs { "normalized-absoluteness" } else { "normalized-text" };
				fail!(sig, "{ctx} {:?}: normalized() = {:?}, expected a rendering of {:?} (absolute: {})", text, nt, e, abs);
			}
		}
		// idempotent
		let again = Path::new(nt.as_str()).unwrap().normalized();
		ensure!(again.as_str() == nt, "normalized-not-idempotent", "{ctx} {:?}: normalized() = {:?} but normalizing that gives {:?}", text, nt, again.as_str());
		// (3) in-place on a stand-alone buffer, through both entry points
		let mut pb = PathBuf::new(text.into()).unwrap();
		guard(|| pb.normalize()).map_err(|pi| Failure::new(format!("panic-normalize:{}", pi.loc), format!("{ctx} {:?}: PathBuf::normalize() panicked: {}", text, pi.msg)))?;
		let t1 = pb.as_str().to_string();
		ensure!(Path::new(t1.as_str()).is_ok(), "normalize-invalid", "{ctx} {:?}: PathBuf::normalize() leaves {:?}, not a valid path", text, t1);
		ensure!(pb.is_absolute() == abs && norm::accept_strict(&t1, abs, &n), "normalize-text", "{ctx} {:?}: PathBuf::normalize() leaves {:?}, expected a rendering of N = {:?} (absolute: {})", text, t1, n, abs);
		let mut pb2 = PathBuf::new(text.into()).unwrap();
		{
			let mut h = pb2.as_path_mut();
			h.normalize();
			let v = (*h).as_str().to_string();
			ensure!(v == t1, "normalize-handle-view", "{ctx} {:?}: PathMut::normalize(): handle views {:?}, PathBuf::normalize gives {:?}", text, v, t1);
			h.normalize();
			let v2 = (*h).as_str().to_string();
			ensure!(v2 == t1, "normalize-not-idempotent", "{ctx} {:?}: normalize() twice through one handle gives {:?} then {:?}", text, t1, v2);
			// normalisation must also work on a handle that has normalised before: push a dot
			// segment through the same handle and normalise again
			for dot in [".", ".."] {
				let before = (*h).as_str().to_string();
				h.push(Segment::new(dot).unwrap());
				let pushed = (*h).as_str().to_string();
				h.normalize();
				let after = (*h).as_str().to_string();
				let (pa, ps) = segs(&pushed);
				let exp = norm::n(pa, &ps);
				ensure!(norm::accept_strict(&after, pa, &exp), "normalize-after-edit-on-same-handle", "{ctx} {:?}: normalize, push({:?}) (path {:?} -> {:?}), normalize through ONE handle leaves {:?}, expected a rendering of {:?}", text, dot, before, pushed, after, exp);
			}
		}
		pb.normalize();
		ensure!(pb.as_str() == t1, "normalize-not-idempotent", "{ctx} {:?}: normalize() gives {:?}, again {:?}", text, t1, pb.as_str());
		// (5) the three implementations agree through the oracle: segments of the in-place result == N
		let (_, s1) = segs(&t1);
		ensure!(norm::unshield(&s1) == norm::unshield(&n), "normalize-vs-segments", "{ctx} {:?}: in-place result {:?} has segments {:?}, normalized_segments() gives {:?}", text, t1, s1, n);
		cx.obs(9);
		Ok(())
	}

	macro_rules! embedded_on {
		($Buf:ty, $case:expr, $e:expr, $cx:expr) => {{
			let p0 = gen::repair(Parts { scheme: $e.scheme.clone(), authority: $e.authority.clone(), path: String::new(), query: $e.query.clone(), fragment: $e.fragment.clone() }, $case.abs, $case.segs.clone(), $e.full);
			let text = recompose(&p0);
			let mut buf = match <$Buf>::new(text.as_str().into()) { Ok(b) => b, Err(_) => return Ok(false) };
			let c0 = split(&text);
			let (abs, s) = segs(&c0.path);
			judge_copy("embedded path (copy)", &c0.path, abs, &s, $cx)?;
			let n = norm::n(abs, &s);
			let view = {
				let mut h = buf.path_mut();
				guard(|| h.normalize()).map_err(|pi| Failure::new(format!("panic-normalize:{}", pi.loc), format!("{:?}: path_mut().normalize() panicked: {}", text, pi.msg)))?;
				(*h).as_str().to_string()
			};
			let fin = String::from_utf8_lossy(buf.as_bytes()).to_string();
			ensure!(std::str::from_utf8(buf.as_bytes()).is_ok() && <$Buf>::new(fin.as_str().into()).is_ok(), "embedded-invalid", "{:?}: after path_mut().normalize() the text {:?} does not re-parse", text, fin);
			let c1 = split(&fin);
			ensure!(c1.scheme == c0.scheme, "frame:scheme", "{:?}: normalize changed the scheme: {:?}", text, fin);
			ensure!(c1.authority == c0.authority, "frame:authority", "{:?}: normalize changed the authority: {:?}", text, fin);
			ensure!(c1.query == c0.query, "frame:query", "{:?}: normalize changed the query: {:?}", text, fin);
			ensure!(c1.fragment == c0.fragment, "frame:fragment", "{:?}: normalize changed the fragment: {:?}", text, fin);
			ensure!(c1.path == view, "embedded-handle-view", "{:?}: handle viewed {:?} after normalize but the path of {:?} is {:?}", text, view, fin, c1.path);
			let pabs = c1.path.starts_with('/');
			ensure!((pabs == abs || (n.is_empty() && c0.authority.is_some())) && norm::accept_strict(&c1.path, pabs, &n), "embedded-normalize-text", "{:?}: after normalize the path is {:?}, expected a rendering of N = {:?} (absolute: {})", text, c1.path, n, abs);
			// idempotent
			buf.path_mut().normalize();
			ensure!(buf.as_bytes() == fin.as_bytes(), "embedded-not-idempotent", "{:?}: normalize gives {:?}, again {:?}", text, fin, String::from_utf8_lossy(buf.as_bytes()));
			$cx.obs(8);
			Ok(true)
		}};
	}

	pub fn check(case: &Case, cx: &mut Ctx) -> Result<bool, Failure> {
		match &case.embed {
			None => {
				let text = gen::path_text(case.abs, &case.segs);
				if Path::new(text.as_str()).is_err() { return Ok(false) }
				let (abs, s) = segs(&text);
				judge_copy("stand-alone path", &text, abs, &s, cx)?;
				Ok(true)
			}
			Some(e) => if e.full { embedded_on!(RiBuf, case, e, cx) } else { embedded_on!(RiRefBuf, case, e, cx) },
		}
	}
}

/// Inputs beyond 4 GiB (offsets and lengths that no longer fit 32 bits), judged directly: the path is
/// `X/b/../c/./d` with X one segment of `n` bytes; normalisation keeps X, c, d.
fn big_probe(fam: Fam, unit: &str, times: usize, abs: bool) -> Result<(), Failure> {
	let mut text = String::with_capacity(unit.len() * times + 16);
	if abs {
		text.push('/');
	}
	for _ in 0..times {
		text.push_str(unit);
	}
	let big = text.len() - abs as usize;
	text.push_str("/b/../c/./d");
	macro_rules! go {
		($Path:ty, $PathBuf:ty) => {{
			let p = <$Path>::new(text.as_str()).map_err(|_| Failure::new("big:rejected", format!("a path of {} bytes is rejected", text.len())))?;
			let lens: Vec<usize> = p.normalized_segments().map(|s| s.as_str().len()).collect();
			ensure!(lens == vec![big, 1, 1], "big:normalized_segments", "path of {} bytes ({}-byte first segment + \"/b/../c/./d\"): normalized_segments() yields segments of lengths {:?}, expected [{}, 1, 1]", text.len(), big, lens, big);
			let raw: Vec<usize> = p.segments().map(|s| s.as_str().len()).collect();
			ensure!(raw == vec![big, 1, 2, 1, 1, 1], "big:segments", "path of {} bytes: segments() yields lengths {:?}", text.len(), raw);
			ensure!(p.segment_count() == 6, "big:segment_count", "path of {} bytes: segment_count() = {}", text.len(), p.segment_count());
			let n = p.normalized();
			ensure!(n.as_str().len() == big + abs as usize + 4 && n.as_str().ends_with("/c/d"), "big:normalized", "path of {} bytes: normalized() has {} bytes and ends {:?}", text.len(), n.as_str().len(), &n.as_str()[n.as_str().len().saturating_sub(8)..]);
			drop(n);
			let mut b = <$PathBuf>::new(std::mem::take(&mut text).into()).map_err(|_| Failure::new("big:rejected", "owned path rejected".to_string()))?;
			b.normalize();
			ensure!(b.as_str().len() == big + abs as usize + 4 && b.as_str().ends_with("/c/d"), "big:normalize-in-place", "in-place normalize of a path beyond 4 GiB leaves {} bytes ending {:?}", b.as_str().len(), &b.as_str()[b.as_str().len().saturating_sub(8)..]);
		}};
	}
	match fam {
		Fam::Uri => go!(iref::uri::Path, iref::uri::PathBuf),
		Fam::Iri => go!(iref::iri::Path, iref::iri::PathBuf),
	}
	Ok(())
}

impl Prop for C09 {
	type Case = Case;
	const ID: &'static str = "C09";

	fn rule() -> String {
		"cases = (family, stand-alone | embedded in a full/reference buffer with/without scheme, authority, query, fragment, absolute?, segment list). Enumerated completely: every path of <= 6 segments over {a, b:c, '', '.', '..'} x {absolute, relative}, stand-alone (both families) and embedded in 's:', no prefix, and '//h' (IRI family). Random: 0-40+ segments from the pool (empty, dot, colon, pct, multi-byte; > 16 segments and > 512 bytes in a fixed share). Oracle: dot-segment model N/E (self-checked against a literal RFC 3986 5.2.4 implementation): normalized_segments() = N with exact len; normalized() is a valid, idempotent, absoluteness-preserving textual rendering of E; PathBuf::normalize / PathMut::normalize rewrite to a STRICT rendering of N (the segment list read back is N, modulo a shield), idempotent; embedded: text re-parses, the other four components are byte-identical. Non-trivial: the path contains a dot segment.".into()
	}

	fn cases(tier: Tier) -> u64 {
		tier.pick(200_000, 6_000_000)
	}

	fn strategy(_tier: Tier) -> BoxedStrategy<Case> {
		gen::fam()
			.prop_flat_map(|f| {
				let o = Opt::new(f).with_nonutf8(true);
				(embed(o), any::<bool>(), prop_oneof![1 => gen::segments(o), 1 => gen::dotty_segments(o)]).prop_map(move |(embed, abs, segs)| Case { fam: f, embed, abs, segs, repeat_first: None })
			})
			.boxed()
	}

	fn check(case: &Case, cx: &mut Ctx) -> Result<(), Failure> {
		let ascii = case.segs.iter().all(|s| s.is_ascii())
			&& case.embed.as_ref().map(|e| {
				[&e.scheme, &e.authority, &e.query, &e.fragment].iter().all(|x| x.as_deref().map(|s| s.is_ascii()).unwrap_or(true))
			}).unwrap_or(true);
		if case.fam == Fam::Uri && !ascii {
			cx.class("skipped-nonascii-uri");
			return Ok(());
		}
		if let Some(times) = case.repeat_first {
			let unit = case.segs.first().cloned().unwrap_or_else(|| "a".into());
			ensure!(!unit.is_empty() && !unit.contains('/') && unit.len().saturating_mul(times) <= (5usize << 30), "harness", "repeat_first out of range");
			crate::engine::grace(900);
			let r = big_probe(case.fam, &unit, times, case.abs);
			crate::engine::grace_end();
			r?;
			cx.class("beyond-4GiB");
			cx.nt();
			cx.obs(5);
			return Ok(());
		}
		let judged = by_fam!(case.fam, check(case, cx))?;
		if !judged {
			cx.class("rejected-by-library");
			return Ok(());
		}
		cx.class("judged");
		let dots = case.segs.iter().any(|s| s == "." || s == "..");
		cx.nt_if(dots);
		let n = norm::n(case.abs, &case.segs);
		cx.class_if(dots, "has-dot-segment");
		cx.class_if(n.first().map(|s| s.is_empty()).unwrap_or(false), "first-normalized-empty");
		cx.class_if(n.first().map(|s| s.contains(':')).unwrap_or(false), "first-normalized-colon");
		cx.class_if(n.first().map(|s| s == "..").unwrap_or(false), "more-dotdot-than-depth");
		cx.class_if(case.segs.len() > 16, "more-than-16-segments");
		cx.class_if(case.segs.iter().map(|s| s.len() + 1).sum::<usize>() > 512, "more-than-512-bytes");
		cx.class_if(case.embed.is_some(), "embedded");
		cx.class_if(case.embed.as_ref().map(|e| e.authority.is_some()).unwrap_or(false), "embedded:authority");
		cx.class_if(case.embed.as_ref().map(|e| e.authority.is_none() && e.scheme.is_none()).unwrap_or(false), "embedded:bare");
		Ok(())
	}

	fn enumerate(tier: Tier, shard: usize, nshards: usize, f: &mut dyn FnMut(Case, bool) -> bool) -> Vec<&'static str> {
		// one path beyond 4 GiB per family (thorough tier only: ~9 GiB of memory, a minute)
		// (skipped when the machine does not have 24 GiB available: being killed for memory is not a verdict)
		let mem_ok = std::fs::read_to_string("/proc/meminfo").ok().and_then(|m| m.lines().find(|l| l.starts_with("MemAvailable:")).and_then(|l| l.split_whitespace().nth(1).and_then(|kb| kb.parse::<u64>().ok()))).map(|kb| kb >= 24 * 1024 * 1024).unwrap_or(false);
		if tier == Tier::Thorough && shard == 0 && mem_ok {
			for (fam, abs) in [(Fam::Uri, true), (Fam::Iri, false)] {
				if !f(Case { fam, embed: None, abs, segs: vec!["0123456789abcdef".into()], repeat_first: Some((1usize << 28) + 1) }, true) {
					return vec![];
				}
			}
		}
		// first segments with a ':' at every offset / of every length (the './' shield makes the result LONGER than the input)
		for (i, n) in gen::sweep_lengths(1100, 70_000).into_iter().enumerate() {
			if i % nshards != shard {
				continue;
			}
			for (k, segs) in [vec![format!("a:{}", gen::filler(n))], vec![format!("{}:b", "_".repeat(n)), "c".to_string()], vec!["..".to_string(), "x".to_string(), "..".to_string(), "..".to_string(), format!("{}:b", "y".repeat(n))], vec![".".to_string(), "".to_string(), "b".repeat(n)], vec![".".to_string(), gen::filler(n)], vec![".".to_string(), gen::filler(n), "file".to_string()], vec![gen::filler(n), ".".to_string()]].into_iter().enumerate() {
				let fam = if (i + k) % 2 == 0 { Fam::Uri } else { Fam::Iri };
				let e = match (i + k) % 4 {
					0 | 1 => None,
					2 => Some(Embed { full: false, scheme: None, authority: None, query: Some("q".into()), fragment: None }),
					_ => Some(Embed { full: true, scheme: Some("s".into()), authority: None, query: None, fragment: Some("f".into()) }),
				};
				if !f(Case { fam, embed: e, abs: false, segs, repeat_first: None }, true) {
					return vec![];
				}
			}
		}
		// deep stacks: k kept '..' (relative) or k ordinary segments, k on both sides of the 16-entry inline buffer and its
		// doublings, followed by EVERY tail of <= 4 segments over {a, .., .} - a '..' must see the TOP of the stack at any depth
		{
			let tails: Vec<Vec<&str>> = {
				let al = ["a", "..", "."];
				let mut v: Vec<Vec<&str>> = vec![vec![]];
				let mut cur: Vec<Vec<&str>> = vec![vec![]];
				for _ in 0..4 {
					let mut next = Vec::new();
					for t in &cur { for x in al { let mut u = t.clone(); u.push(x); next.push(u); } }
					v.extend(next.iter().cloned());
					cur = next;
				}
				v
			};
			let mut gi = 0usize;
			for k in (0..=40usize).chain([63, 64, 65, 127, 128, 129, 255, 256, 257]) {
				for (lead, abs) in [("..", false), ("s", false), ("s", true), ("..", true)] {
					for t in &tails {
						gi += 1;
						if gi % nshards != shard {
							continue;
						}
						let mut segs: Vec<String> = (0..k).map(|j| if lead == "s" { format!("s{j}") } else { lead.to_string() }).collect();
						segs.extend(t.iter().map(|x| x.to_string()));
						let fam = if gi % 2 == 0 { Fam::Uri } else { Fam::Iri };
						let e = match gi % 3 {
							0 => None,
							1 => Some(Embed { full: true, scheme: Some("s".into()), authority: None, query: None, fragment: None }),
							_ => Some(Embed { full: false, scheme: None, authority: None, query: Some("q".into()), fragment: Some("f".into()) }),
						};
						if !f(Case { fam, embed: e, abs, segs, repeat_first: None }, true) {
							return vec![];
						}
					}
				}
			}
		}
		// huge segments, each followed on the same thread by a small path
		{
			let mut gi = 0usize;
			for n in gen::huge_sizes(tier) {
				let x = gen::filler(n);
				for (abs, segs) in [(false, vec![format!("1:{x}"), ".".to_string()]), (true, vec![x.clone(), "..".into(), "y".into(), x.clone(), ".".into()]), (false, vec!["..".into(), x.clone(), "".into(), "..".into()])] {
					gi += 1;
					if gi % nshards != shard {
						continue;
					}
					let fam = if gi % 2 == 0 { Fam::Uri } else { Fam::Iri };
					let e = if fam == Fam::Iri { Some(Embed { full: true, scheme: Some("s".into()), authority: None, query: Some("q".into()), fragment: None }) } else { None };
					for c in [Case { fam, embed: e.clone(), abs, segs, repeat_first: None }, Case { fam, embed: e.clone(), abs: false, segs: vec!["x".into(), ".".into(), "y".into(), "..".into(), "z".into()], repeat_first: None }, Case { fam, embed: None, abs: true, segs: vec!["a".into(), "..".into(), "b".into(), ".".into()], repeat_first: None }] {
						if !f(c, true) {
							return vec![];
						}
					}
				}
			}
		}
		let alphabet = ["a", "b:c", "", ".", ".."];
		let maxlen = tier.pick(6, 7);
		let mut i = 0usize;
		let embeds: Vec<Option<Embed>> = vec![
			None,
			Some(Embed { full: true, scheme: Some("s".into()), authority: None, query: Some("q".into()), fragment: None }),
			Some(Embed { full: false, scheme: None, authority: None, query: None, fragment: Some("f".into()) }),
			Some(Embed { full: false, scheme: None, authority: Some("h".into()), query: None, fragment: None }),
		];
		for len in 0..=maxlen {
			let total = 5u64.pow(len as u32);
			for m0 in 0..total {
				let mut m = m0;
				let mut s = vec![];
				for _ in 0..len {
					s.push(alphabet[(m % 5) as usize].to_string());
					m /= 5;
				}
				for abs in [false, true] {
					for (ei, e) in embeds.iter().enumerate() {
						for fam in [Fam::Uri, Fam::Iri] {
							if ei > 0 && fam == Fam::Uri {
								continue;
							}
							i += 1;
							if i % nshards != shard {
								continue;
							}
							if !f(Case { fam, embed: e.clone(), abs, segs: s.clone(), repeat_first: None }, true) {
								return vec![];
							}
						}
					}
				}
			}
		}
		vec!["relative paths whose first segment has a ':' at every offset 0..=1100 (and the usual limits up to 70 000), stand-alone and embedded", "huge segments (1 MiB+3, 2 MiB; thorough: 64 KiB+1 .. 8 MiB+1) normalized by every route, each followed by small paths on the same thread", "all paths of <= L segments over {a, b:c, '', '.', '..'} x {absolute, relative}, stand-alone and in three embeddings"]
	}

	fn floors(_tier: Tier) -> Vec<(&'static str, u64)> {
		vec![
			("judged", 150_000),
			("has-dot-segment", 100_000),
			("first-normalized-empty", 10_000),
			("first-normalized-colon", 10_000),
			("more-dotdot-than-depth", 10_000),
			("more-than-16-segments", 5_000),
			("more-than-512-bytes", 2_000),
			("embedded:authority", 10_000),
			("embedded:bare", 10_000),
		]
	}
}
