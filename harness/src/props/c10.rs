//! C10 — path editing has list semantics and touches nothing but the path.

use proptest::collection::vec;
use proptest::prelude::*;
use serde::{Deserialize, Serialize};

use crate::engine::{guard, Ctx, Failure, Prop, Tier};
use crate::gen::{self, Fam, Opt};
use crate::oracle::norm;
use crate::oracle::split::{recompose, segs, split, Parts};
use crate::{both_families, by_fam, ensure, fail, soft_fail};

#[derive(Debug, Clone, Hash, PartialEq, Eq, Serialize, Deserialize)]
pub enum POp {
	Push(String),
	Pop,
	Clear,
	SymPush(String),
	SymAppend(Vec<String>),
	Normalize,
	Read,
}

#[derive(Debug, Clone, Hash, PartialEq, Eq, Serialize, Deserialize)]
pub struct Embed {
	pub full: bool,
	pub scheme: Option<String>,
	pub authority: Option<String>,
	pub query: Option<String>,
	pub fragment: Option<String>,
}

#[derive(Debug, Clone, Hash, Serialize, Deserialize)]
pub struct Case {
	pub fam: Fam,
	/// None = stand-alone PathBuf
	pub embed: Option<Embed>,
	pub abs: bool,
	pub segs: Vec<String>,
	pub ops: Vec<POp>,
}

pub struct C10;

pub fn pop_strategy(o: Opt) -> BoxedStrategy<POp> {
	prop_oneof![
		6 => gen::segment(o).prop_map(POp::Push),
		3 => Just(POp::Pop),
		1 => Just(POp::Clear),
		3 => gen::segment(o).prop_map(POp::SymPush),
		2 => vec(gen::segment(o), 0..5).prop_map(POp::SymAppend),
		1 => Just(POp::Normalize),
		1 => Just(POp::Read),
	]
	.boxed()
}

/// The list model: a set of candidate readings (see `interps`), all with
/// the same absoluteness.
#[derive(Debug, Clone, PartialEq, Eq)]
pub struct Model {
	pub abs: bool,
	pub segs: Vec<String>,
	/// the path directly follows an authority (so it is absolute from the first segment on)
	pub after_authority: bool,
}

#[derive(Debug, Clone)]
enum Atom {
	Push(String),
	Pop,
	Clear,
	Sym(String),
	/// the empty segment appended after a final dot segment when the list is non-empty
	Close,
	Normalize,
}

fn atoms(op: &POp) -> Vec<Atom> {
	let dot = |s: &str| s == "." || s == "..";
	match op {
		POp::Push(s) => vec![Atom::Push(s.clone())],
		POp::Pop => vec![Atom::Pop],
		POp::Clear => vec![Atom::Clear],
		POp::SymPush(s) => {
			let mut v = vec![Atom::Sym(s.clone())];
			if dot(s) {
				v.push(Atom::Close)
			}
			v
		}
		POp::SymAppend(l) => {
			let mut v: Vec<Atom> = l.iter().map(|s| Atom::Sym(s.clone())).collect();
			if l.last().map(|s| dot(s)).unwrap_or(false) {
				v.push(Atom::Close)
			}
			v
		}
		POp::Normalize => vec![Atom::Normalize],
		POp::Read => vec![],
	}
}

fn pop_list(abs: bool, l: &mut Vec<String>) {
	if l.is_empty() {
		if !abs {
			l.push("..".into())
		}
	} else if l.last().map(|s| s == "..").unwrap_or(false) {
		l.push("..".into())
	} else {
		l.pop();
	}
}

impl Model {
	/// All lists the statement allows after `op`, starting from any reading of
	/// `self.segs`, re-reading a leading shield after every atomic step.
	/// `quirk`: model the behaviour pinned by the repository's own test
	/// `unambiguous_resolution` (an empty segment symbolically pushed onto an
	/// empty path is ignored) instead of the statement's list semantics.
	pub fn apply_all(&self, op: &POp, quirk: bool) -> Vec<Model> {
		let mut abs = self.abs;
		let mut set: Vec<Vec<String>> = interps(&self.segs);
		for a in atoms(op) {
			let mut next: Vec<Vec<String>> = vec![];
			for l in &set {
				let mut l = l.clone();
				match &a {
					Atom::Push(s) => l.push(s.clone()),
					Atom::Pop => pop_list(abs, &mut l),
					Atom::Clear => l.clear(),
					Atom::Sym(s) => match s.as_str() {
						"." => {}
						".." => pop_list(abs, &mut l),
						_ => {
							if !(quirk && s.is_empty() && l.is_empty()) {
								l.push(s.clone())
							}
						}
					},
					Atom::Close => {
						if !l.is_empty() {
							l.push(String::new())
						}
					}
					Atom::Normalize => l = norm::n(abs, &l),
				}
				for r in interps_both(&l) {
					if !next.contains(&r) {
						next.push(r)
					}
				}
			}
			set = next;
			if self.after_authority && set.iter().any(|l| !l.is_empty()) {
				abs = true
			}
		}
		set.into_iter().map(|segs| Model { abs, segs, after_authority: self.after_authority }).collect()
	}
}

fn mentions_empty_on_empty(op: &POp) -> bool {
	match op {
		POp::SymPush(s) => s.is_empty(),
		POp::SymAppend(v) => v.iter().any(|s| s.is_empty()),
		_ => false,
	}
}

/// Readings of a segment list: as it is, and - when it starts with a `.`
/// followed by an empty or colon-bearing segment - with that `.` taken as a
/// transparent shield.
pub fn interps(s: &[String]) -> Vec<Vec<String>> {
	let mut v = vec![s.to_vec()];
	let u = norm::unshield(s);
	if u.len() != s.len() {
		v.push(u)
	}
	v
}

/// Like `interps`, plus the reading in which the library has inserted a
/// shield in front of a first segment that is empty or contains ':'.
pub fn interps_both(s: &[String]) -> Vec<Vec<String>> {
	let mut v = interps(s);
	if !s.is_empty() && (s[0].is_empty() || s[0].contains(':')) {
		let mut w = vec![".".to_string()];
		w.extend(s.iter().cloned());
		v.push(w)
	}
	v
}

pub const QUIRK_SIG: &str = "symbolic-push-ignores-empty-segment-on-empty-path";

/// The public `unsafe iri::PathMut::new` route (IRI family only: `uri::PathMut` has no such constructor).
pub fn raw_route(fam: Fam, raw: &mut Vec<u8>, start: usize, end: usize, ops: &[POp]) -> Option<Result<String, crate::engine::PanicInfo>> {
	match fam {
		Fam::Uri => None,
		Fam::Iri => Some(guard(|| {
			let mut h = unsafe { iref::iri::PathMut::new(raw, start, end) };
			for op in ops.iter() {
				i::apply(&mut h, op)
			}
			(*h).as_str().to_string()
		})),
	}
}


both_families! {
	pub fn seg_valid(s: &str) -> bool { Segment::new(s).is_ok() }

	pub fn op_valid(op: &POp) -> bool {
		match op {
			POp::Push(s) | POp::SymPush(s) => seg_valid(s),
			POp::SymAppend(v) => v.iter().all(|s| seg_valid(s)),
			_ => true,
		}
	}

	pub fn apply(h: &mut PathMut, op: &POp) {
		match op {
			POp::Push(s) => h.push(Segment::new(s.as_str()).unwrap()),
			POp::Pop => h.pop(),
			POp::Clear => h.clear(),
			POp::SymPush(s) => h.symbolic_push(Segment::new(s.as_str()).unwrap()),
			POp::SymAppend(v) => {
				let segs: Vec<&Segment> = v.iter().map(|s| Segment::new(s.as_str()).unwrap()).collect();
				// any IntoIterator is a legal argument: alternate between the vector itself, an iterator whose
				// size_hint is loose (0, Some(usize::MAX)) and one without an upper bound
				match segs.len() % 3 {
					0 => h.symbolic_append(segs),
					1 => {
						let n = segs.len();
						h.symbolic_append((0..usize::MAX).take_while(|i| *i < n).map(|i| segs[i]))
					}
					_ => {
						let mut it = segs.iter().copied();
						h.symbolic_append(std::iter::from_fn(move || it.next()))
					}
				}
			}
			POp::Normalize => h.normalize(),
			POp::Read => {}
		}
	}

	/// Judge the handle view after one op against the view before it.
	///
	/// A leading `.` followed by an empty or colon-bearing segment can be read
	/// as a shield (transparent) or as an ordinary segment; the text does not
	/// say which, so both readings of the text before the op are tried and the
	/// text after the op may be either reading of the expected list.
	fn step(ctx: &str, k: usize, op: &POp, ops: &[POp], prev: &str, after_authority: bool, view: &str, cx: &mut Ctx) -> Result<(), Failure> {
		ensure!(Path::new(view).is_ok(), "view-invalid-path", "{ctx}: after op #{k} {:?} the handle views {:?}, which is not a valid path", op, view);
		let (pabs, psegs) = segs(prev);
		let (vabs, vsegs) = segs(view);
		let vreadings = interps(&vsegs);
		let mut expected = vec![];
		for quirk in [false, true] {
			if quirk && !mentions_empty_on_empty(op) {
				continue;
			}
			let m0 = Model { abs: pabs, segs: psegs.clone(), after_authority };
			let outcomes = m0.apply_all(op, quirk);
			for m in outcomes {
				let ok = {
					let abs_ok = vabs == m.abs || (m.segs.is_empty() && vsegs.is_empty() && after_authority);
					// an empty path directly after an authority: pop may leave it alone or give "/.."
					let pop_after_authority = matches!(op, POp::Pop) && after_authority && psegs.is_empty() && (vsegs.is_empty() || view == "/..");
					(abs_ok && vreadings.contains(&m.segs)) || pop_after_authority
				};
				if ok {
					if quirk {
						soft_fail!(cx, QUIRK_SIG, "{ctx}: op #{k} {:?} on the path {:?}: the handle views {:?}; list semantics give {:?} (the empty segment pushed onto the empty path was dropped)", op, prev, view, expected);
					}
					return Ok(());
				}
				if !quirk {
					expected.push((m.abs, m.segs));
				}
			}
		}
		let sig = if expected.iter().all(|(a, _)| *a != vabs) { "absoluteness-changed" } else {
			match op { POp::Push(_) => "push-segments", POp::Pop => "pop-segments", POp::Clear => "clear-segments", POp::SymPush(_) => "symbolic_push-segments", POp::SymAppend(_) => "symbolic_append-segments", POp::Normalize => "normalize-result", _ => "segments" }
		};
		fail!(sig, "{ctx}: op #{k} {:?} (ops so far {:?}) applied to {:?}: the handle now views {:?} = segments {:?} (absolute: {}); list semantics give (absolute, segments) in {:?}", op, &ops[..=k], prev, view, vsegs, vabs, expected);
	}

	fn same_lists(a: &str, b: &str) -> bool {
		let (aa, sa) = segs(a);
		let (ba, sb) = segs(b);
		(aa == ba || (sa.is_empty() && sb.is_empty())) && interps(&sa).iter().any(|x| interps(&sb).contains(x))
	}

	fn standalone(case: &Case, ops: &[POp], cx: &mut Ctx) -> Result<bool, Failure> {
		let text = gen::path_text(case.abs, &case.segs);
		let mut pb = match PathBuf::new(text.as_str().into()) { Ok(p) => p, Err(_) => return Ok(false) };
		let ctx = format!("stand-alone path {:?}", text);
		{
			let mut h = pb.as_path_mut();
			let mut prev = text.clone();
			for (k, op) in ops.iter().enumerate() {
				if let Err(p) = guard(|| apply(&mut h, op)) {
					fail!(format!("panic:{}", p.loc), "{ctx}: op #{k} {:?} (ops {:?}) panicked at {}: {}", op, &ops[..=k], p.loc, p.msg);
				}
				let view = guard(|| (*h).as_str().to_string()).map_err(|p| Failure::new(format!("panic-in-view:{}", p.loc), format!("{ctx}: handle view panicked after op #{k} {:?}: {}", op, p.msg)))?;
				step(&ctx, k, op, ops, &prev, false, &view, cx)?;
				prev = view;
				cx.obs(1);
			}
		}
		let fin = pb.as_str().to_string();
		ensure!(Path::new(fin.as_str()).is_ok(), "final-invalid-path", "{ctx}: after {:?} the buffer {:?} is not a valid path", ops, fin);
		// the same ops through the PathBuf convenience methods (fresh handle per call)
		let mut pb2 = PathBuf::new(text.as_str().into()).unwrap();
		let mut prev = text.clone();
		for (k, op) in ops.iter().enumerate() {
			let r = guard(|| match op {
				POp::Push(s) => pb2.push(Segment::new(s.as_str()).unwrap()),
				POp::Pop => pb2.pop(),
				POp::Clear => pb2.clear(),
				POp::SymPush(s) => pb2.symbolic_push(Segment::new(s.as_str()).unwrap()),
				POp::SymAppend(v) => {
					let sg: Vec<&Segment> = v.iter().map(|s| Segment::new(s.as_str()).unwrap()).collect();
					pb2.symbolic_append(sg)
				}
				POp::Normalize => pb2.normalize(),
				POp::Read => {}
			});
			if let Err(p) = r {
				fail!(format!("panic-fresh:{}", p.loc), "{ctx}: PathBuf op #{k} {:?} panicked at {}: {}", op, p.loc, p.msg);
			}
			let view = pb2.as_str().to_string();
			step(&format!("{ctx} (PathBuf methods, fresh handle per call)"), k, op, ops, &prev, false, &view, cx)?;
			prev = view;
		}
		ensure!(same_lists(&fin, pb2.as_str()), "handle-reuse-differs", "{ctx}: ops {:?} through one handle give {:?}, through a fresh handle per op {:?}", ops, fin, pb2.as_str());
		Ok(true)
	}

	macro_rules! embedded_on {
		($Buf:ty, $case:expr, $e:expr, $ops:expr, $cx:expr) => {{
			let p0 = gen::repair(Parts { scheme: $e.scheme.clone(), authority: $e.authority.clone(), path: String::new(), query: $e.query.clone(), fragment: $e.fragment.clone() }, $case.abs, $case.segs.clone(), $e.full);
			let text = recompose(&p0);
			let mut buf = match <$Buf>::new(text.as_str().into()) { Ok(b) => b, Err(_) => return Ok(false) };
			let c0 = split(&text);
			let after_authority = c0.authority.is_some();
			let ctx = format!("path of {:?}", text);
			{
				let mut h = buf.path_mut();
				let mut prev = c0.path.clone();
				for (k, op) in $ops.iter().enumerate() {
					if let Err(p) = guard(|| apply(&mut h, op)) {
						fail!(format!("panic:{}", p.loc), "{ctx}: op #{k} {:?} (ops {:?}) panicked at {}: {}", op, &$ops[..=k], p.loc, p.msg);
					}
					let view = guard(|| (*h).as_str().to_string()).map_err(|p| Failure::new(format!("panic-in-view:{}", p.loc), format!("{ctx}: handle view panicked after op #{k} {:?}: {}", op, p.msg)))?;
					step(&ctx, k, op, $ops, &prev, after_authority, &view, $cx)?;
					prev = view;
					$cx.obs(1);
				}
				let fin = String::from_utf8_lossy(h_bytes(&h)).to_string();
				let _ = fin;
			}
			let fin = String::from_utf8_lossy(buf.as_bytes()).to_string();
			ensure!(std::str::from_utf8(buf.as_bytes()).is_ok() && <$Buf>::new(fin.as_str().into()).is_ok(), "enclosing-invalid", "{ctx}: after {:?} the enclosing text {:?} does not re-parse", $ops, fin);
			let c1 = split(&fin);
			ensure!(c1.scheme == c0.scheme, "frame:scheme", "{ctx}: after {:?} the text is {:?}: scheme changed from {:?} to {:?}", $ops, fin, c0.scheme, c1.scheme);
			ensure!(c1.authority == c0.authority, "frame:authority", "{ctx}: after {:?} the text is {:?}: authority changed from {:?} to {:?}", $ops, fin, c0.authority, c1.authority);
			ensure!(c1.query == c0.query, "frame:query", "{ctx}: after {:?} the text is {:?}: query changed from {:?} to {:?}", $ops, fin, c0.query, c1.query);
			ensure!(c1.fragment == c0.fragment, "frame:fragment", "{ctx}: after {:?} the text is {:?}: fragment changed from {:?} to {:?}", $ops, fin, c0.fragment, c1.fragment);
			let acc: Vec<String> = buf.path().segments().map(|s| s.as_str().to_string()).collect();
			ensure!(acc == segs(&c1.path).1, "final-segments", "{ctx}: after {:?} path().segments() = {:?}, the path text is {:?}", $ops, acc, c1.path);
			// fresh handle per op
			let mut buf2 = <$Buf>::new(text.as_str().into()).unwrap();
			let mut prev = c0.path.clone();
			for (k, op) in $ops.iter().enumerate() {
				let r = guard(|| { let mut h = buf2.path_mut(); apply(&mut h, op); });
				if let Err(p) = r {
					fail!(format!("panic-fresh:{}", p.loc), "{ctx}: op #{k} {:?} on a fresh handle panicked at {}: {}", op, p.loc, p.msg);
				}
				let t = String::from_utf8_lossy(buf2.as_bytes()).to_string();
				ensure!(std::str::from_utf8(buf2.as_bytes()).is_ok() && <$Buf>::new(t.as_str().into()).is_ok(), "enclosing-invalid-fresh", "{ctx}: op #{k} {:?} on a fresh handle (ops {:?}) leaves {:?}, which does not re-parse", op, &$ops[..=k], t);
				let view = split(&t).path;
				step(&format!("{ctx} (fresh handle per op)"), k, op, $ops, &prev, after_authority, &view, $cx)?;
				prev = view;
			}
			let fin2 = String::from_utf8_lossy(buf2.as_bytes()).to_string();
			let c2 = split(&fin2);
			ensure!(same_lists(&c1.path, &c2.path) && c2.scheme == c0.scheme && c2.authority == c0.authority && c2.query == c0.query && c2.fragment == c0.fragment,
				"handle-reuse-differs", "{ctx}: ops {:?} through one handle give {:?}, through a fresh handle per op {:?}", $ops, fin, fin2);
			// the public `unsafe iri::PathMut::new(buffer, start, end)` route (the URI family has no such constructor) on a plain Vec<u8> holding the same text:
			// the range is the path of a valid reference, so the safety contract holds and the effect must be the same
			{
				let start = c0.scheme.as_ref().map(|x| x.len() + 1).unwrap_or(0) + c0.authority.as_ref().map(|x| x.len() + 2).unwrap_or(0);
				let end = start + c0.path.len();
				let mut raw: Vec<u8> = text.as_bytes().to_vec();
				let r = raw_route(FAM, &mut raw, start, end, $ops);
				match r {
					None => {}
					Some(Err(p)) => fail!(format!("panic-raw-route:{}", p.loc), "{ctx}: ops {:?} through `unsafe PathMut::new(vec, {start}, {end})` panicked at {}: {}", $ops, p.loc, p.msg),
					Some(Ok(view)) => {
						let t = String::from_utf8_lossy(&raw).to_string();
						ensure!(std::str::from_utf8(&raw).is_ok() && <$Buf>::new(t.as_str().into()).is_ok(), "raw-route-invalid", "{ctx}: ops {:?} through `unsafe PathMut::new(vec, {start}, {end})` leave {:?}, which does not re-parse", $ops, t);
						let c3 = split(&t);
						ensure!(same_lists(&c1.path, &c3.path) && same_lists(&c1.path, &view) && c3.scheme == c0.scheme && c3.authority == c0.authority && c3.query == c0.query && c3.fragment == c0.fragment,
							"raw-route-differs", "{ctx}: ops {:?} through path_mut() give {:?}, through `unsafe PathMut::new(vec, {start}, {end})` {:?} (handle view {:?})", $ops, fin, t, view);
					}
				}
			}
			// the same vector on a stand-alone buffer holding the same path text: same segment list
			// (skipped when the embedded path is the empty path after an authority, which becomes absolute)
			if !after_authority || c0.path.starts_with('/') {
				if let Ok(mut pb) = PathBuf::new(c0.path.as_str().into()) {
					let r = guard(|| { let mut h = pb.as_path_mut(); for op in $ops.iter() { apply(&mut h, op) } });
					if let Err(p) = r {
						fail!(format!("panic-standalone-twin:{}", p.loc), "{ctx}: the same ops {:?} on a stand-alone copy of the path panicked at {}: {}", $ops, p.loc, p.msg);
					}
					ensure!(same_lists(&c1.path, pb.as_str()), "standalone-vs-embedded", "{ctx}: ops {:?} give the path {:?} in place but {:?} on a stand-alone buffer with the same initial path {:?}", $ops, c1.path, pb.as_str(), c0.path);
					$cx.class("standalone-twin");
				}
			}
			Ok(true)
		}};
	}

	fn h_bytes<'a>(h: &'a PathMut) -> &'a [u8] { (**h).as_bytes() }

	pub fn check(case: &Case, ops: &[POp], cx: &mut Ctx) -> Result<bool, Failure> {
		match &case.embed {
			None => standalone(case, ops, cx),
			Some(e) => if e.full { embedded_on!(RiBuf, case, e, ops, cx) } else { embedded_on!(RiRefBuf, case, e, ops, cx) },
		}
	}
}

pub fn embed(o: Opt) -> BoxedStrategy<Option<Embed>> {
	prop_oneof![
		3 => Just(None),
		7 => (any::<bool>(), gen::opt_of(gen::scheme(), 5), gen::opt_of(gen::authority(o), 5), gen::opt_of(gen::query(o), 4), gen::opt_of(gen::fragment(o), 4))
			.prop_map(|(full, scheme, authority, query, fragment)| Some(Embed { full, scheme: if full { scheme.or(Some("s".into())) } else { scheme }, authority, query, fragment })),
	]
	.boxed()
}

impl Prop for C10 {
	type Case = Case;
	const ID: &'static str = "C10";

	fn rule() -> String {
		"cases = (family, host in {stand-alone PathBuf, embedded in a full or reference buffer with/without scheme, authority, query, fragment}, initial path (absolute/relative, 0-40 segments from the pool: empty, '.', '..', colon-bearing, pct, multi-byte), vector of 1-8 (quick) / 1-24 (thorough) ops push/pop/clear/symbolic_push/symbolic_append/normalize/read applied THROUGH ONE HANDLE). Model: (absolute?, segment list). Oracle: after every op the handle's Deref text is a valid path and a strict rendering of the model (a '.' only as shield before an empty or colon-bearing first segment); after drop the enclosing text re-parses with scheme/authority/query/fragment byte-identical; the same vector through a fresh handle per op yields the same segment list. Non-trivial: >= 2 editing ops on one handle, or an op on an embedded path whose argument is empty / contains ':' / is a dot segment.".into()
	}

	fn assumptions() -> Vec<String> {
		vec![
			"pop on an empty path directly following an authority may either leave it alone or give '/..' (the statement does not settle whether that path counts as relative)".into(),
			"after a normalize op the model is re-derived from the observed text (normalize's own result is judged by the textual rule; its correctness is C09's subject)".into(),
		]
	}

	fn cases(tier: Tier) -> u64 {
		tier.pick(300_000, 8_000_000)
	}

	fn strategy(tier: Tier) -> BoxedStrategy<Case> {
		let maxops = tier.pick(8usize, 24);
		gen::fam()
			.prop_flat_map(move |f| {
				let o = Opt::new(f);
				(embed(o), any::<bool>(), gen::segments(o), vec(pop_strategy(o), 1..=maxops))
					.prop_map(move |(embed, abs, segs, ops)| Case { fam: f, embed, abs, segs, ops })
			})
			.boxed()
	}

	fn check(case: &Case, cx: &mut Ctx) -> Result<(), Failure> {
		let ascii = case.segs.iter().all(|s| s.is_ascii())
			&& case.embed.as_ref().map(|e| {
				[&e.scheme, &e.authority, &e.query, &e.fragment].iter().all(|x| x.as_deref().map(|s| s.is_ascii()).unwrap_or(true))
			}).unwrap_or(true);
		if case.fam == Fam::Uri && !ascii {
			cx.class("skipped-nonascii-uri");
			return Ok(());
		}
		let ops: Vec<POp> = case
			.ops
			.iter()
			.filter(|op| match case.fam {
				Fam::Uri => u::op_valid(op),
				Fam::Iri => i::op_valid(op),
			})
			.cloned()
			.collect();
		let judged = by_fam!(case.fam, check(case, &ops, cx))?;
		if !judged {
			cx.class("rejected-by-library");
			return Ok(());
		}
		cx.class("judged");
		let edits = ops.iter().filter(|o| !matches!(o, POp::Read)).count();
		let special_arg = ops.iter().any(|o| match o {
			POp::Push(s) | POp::SymPush(s) => s.is_empty() || s.contains(':') || s == "." || s == "..",
			POp::SymAppend(v) => v.iter().any(|s| s.is_empty() || s.contains(':') || s == "." || s == ".."),
			_ => false,
		});
		cx.nt_if(edits >= 2 || (case.embed.is_some() && special_arg));
		cx.class_if(case.embed.is_none(), "stand-alone");
		if let Some(e) = &case.embed {
			cx.class("embedded");
			cx.class_if(e.authority.is_some(), "embedded:authority");
			cx.class_if(e.authority.is_some() && case.segs.is_empty(), "embedded:authority+empty-path");
			cx.class_if(e.scheme.is_none() && e.authority.is_none(), "embedded:no-scheme-no-authority");
			cx.class_if(e.scheme.is_some() && e.authority.is_none(), "embedded:scheme-only");
		}
		cx.class_if(case.segs.is_empty(), "initially-empty");
		cx.class_if(edits >= 2, "two-or-more-edits");
		cx.class_if(special_arg, "special-argument");
		cx.class_if(ops.iter().any(|o| matches!(o, POp::Normalize)), "has-normalize");
		cx.class_if(ops.iter().any(|o| matches!(o, POp::Clear)), "has-clear");
		Ok(())
	}

	fn enumerate(tier: Tier, shard: usize, nshards: usize, f: &mut dyn FnMut(Case, bool) -> bool) -> Vec<&'static str> {
		// segments with a ':' at every offset pushed onto empty / one-segment relative paths
		for (i, n) in gen::sweep_lengths(1100, 70_000).into_iter().enumerate() {
			if i % nshards != shard {
				continue;
			}
			let seg = format!("{}:b", "_".repeat(n));
			for (k, (segs, ops)) in [
				(vec![seg.clone()], vec![POp::Normalize, POp::Read]),
				(vec![], vec![POp::Push(seg.clone()), POp::Normalize]),
				(vec![seg.clone(), "c".to_string()], vec![POp::Pop, POp::Normalize]),
				(vec![], vec![POp::Push(seg.clone()), POp::Push("c".into()), POp::Pop, POp::Pop]),
				(vec!["a".to_string()], vec![POp::Pop, POp::SymPush(seg.clone()), POp::Normalize]),
				(vec![seg.clone(), "c".to_string()], vec![POp::Normalize, POp::Pop, POp::Push("".into())]),
			].into_iter().enumerate() {
				let fam = if (i + k) % 2 == 0 { Fam::Uri } else { Fam::Iri };
				let embed = match if k < 3 { 0 } else { (i + k) % 3 } {
					0 => None,
					1 => Some(Embed { full: false, scheme: None, authority: None, query: Some("q".into()), fragment: None }),
					_ => Some(Embed { full: true, scheme: Some("s".into()), authority: None, query: None, fragment: None }),
				};
				if !f(Case { fam, embed, abs: false, segs, ops }, true) {
					return vec![];
				}
			}
		}
		// a pushed segment of S bytes in front of a query + fragment of T bytes, for T over the usual limits up to
		// 70 000 (scratch buffers sized for the content OR the tail, not their sum)
		for (i, t) in gen::sweep_lengths(0, 70_000).into_iter().enumerate() {
			for (k, sl) in [1usize, 600, 1000, 5000, 40_000].into_iter().enumerate() {
				if (i * 5 + k) % nshards != shard {
					continue;
				}
				let fam = if (i + k) % 2 == 0 { Fam::Uri } else { Fam::Iri };
				let embed = Some(Embed { full: k % 2 == 0, scheme: if k % 2 == 0 { Some("s".into()) } else { None }, authority: if k % 3 == 0 { Some("h".into()) } else { None }, query: Some(gen::filler(t)), fragment: Some("fragment".into()) });
				if !f(Case { fam, embed, abs: k % 3 == 0, segs: if k % 2 == 0 { vec![] } else { vec!["a".into(), "..".into()] }, ops: vec![POp::Push(gen::filler(sl)), POp::Normalize, POp::Push("t".into())] }, true) {
					return vec![];
				}
			}
		}
		// LONG histories through one handle: k edits around every small counter width
		{
			let mut ks: Vec<usize> = vec![63, 64, 65, 127, 128, 129, 255, 256, 257, 511, 512, 513];
			if tier == Tier::Thorough {
				ks.extend([1023, 1024, 1025, 4095, 4096, 4097]);
			}
			let mut gi = 0usize;
			for k in ks {
				for shape in 0..4usize {
					gi += 1;
					if gi % nshards != shard {
						continue;
					}
					let mut ops: Vec<POp> = vec![POp::Normalize];
					for j in 0..k {
						ops.push(match (shape, j % 4) {
							(0, _) => POp::Push(if j % 2 == 0 { "a".into() } else { "".into() }),
							(1, 0) | (1, 1) => POp::Push("x".into()),
							(1, _) => POp::Pop,
							(2, 0) => POp::SymPush("a:b".into()),
							(2, 1) => POp::SymPush("..".into()),
							(2, 2) => POp::Push("".into()),
							(2, _) => POp::Pop,
							(_, 0) => POp::Push("..".into()),
							(_, 1) => POp::Pop,
							(_, 2) => POp::SymPush(".".into()),
							(_, _) => POp::Read,
						});
					}
					ops.push(POp::Normalize);
					ops.push(POp::Push("z".into()));
					ops.push(POp::Pop);
					let fam = if gi % 2 == 0 { Fam::Uri } else { Fam::Iri };
					let embed = if gi % 3 == 0 { None } else { Some(Embed { full: true, scheme: Some("s".into()), authority: if gi % 3 == 1 { Some("h".into()) } else { None }, query: Some("q".into()), fragment: Some("f".into()) }) };
					if !f(Case { fam, embed, abs: gi % 2 == 0, segs: vec!["a:b".into(), "c".into()], ops }, true) {
						return vec![];
					}
				}
			}
		}
		// all initial paths of <= 2 segments over {a, '', ., .., a:b} x 4 hosts x ALL op sequences of length <= 2
		let alphabet = ["a", "", ".", "..", "a:b", "C:", "%2E"];
		let mut inits: Vec<Vec<String>> = vec![vec![]];
		for x in alphabet {
			inits.push(vec![x.to_string()]);
			for y in alphabet {
				inits.push(vec![x.to_string(), y.to_string()]);
			}
		}
		let ops1: Vec<POp> = vec![
			POp::Push("a".into()), POp::Push("".into()), POp::Push("a:b".into()), POp::Push("..".into()), POp::Push(".".into()),
			POp::Pop, POp::Clear, POp::SymPush("..".into()), POp::SymPush("".into()), POp::SymPush("a:b".into()), POp::SymAppend(vec!["".into(), "..".into()]), POp::Normalize,
		];
		let mut seqs: Vec<Vec<POp>> = ops1.iter().map(|o| vec![o.clone()]).collect();
		for a in &ops1 {
			for b in &ops1 {
				seqs.push(vec![a.clone(), b.clone()]);
			}
		}
		let embeds: Vec<Option<Embed>> = vec![
			None,
			Some(Embed { full: true, scheme: Some("s".into()), authority: None, query: Some("q".into()), fragment: None }),
			Some(Embed { full: false, scheme: None, authority: None, query: None, fragment: Some("f".into()) }),
			Some(Embed { full: false, scheme: None, authority: Some("h".into()), query: Some("q".into()), fragment: None }),
			Some(Embed { full: true, scheme: Some("s".into()), authority: Some("".into()), query: None, fragment: None }),
			// behaviour must not depend on WHICH scheme it is
			Some(Embed { full: true, scheme: Some("file".into()), authority: Some("".into()), query: None, fragment: None }),
			Some(Embed { full: true, scheme: Some("http".into()), authority: Some("h".into()), query: None, fragment: None }),
			Some(Embed { full: true, scheme: Some("FILE".into()), authority: None, query: None, fragment: None }),
		];
		let mut i = 0usize;
		for e in &embeds {
			for segs in &inits {
				for abs in [false, true] {
					for ops in &seqs {
						i += 1;
						if i % nshards != shard {
							continue;
						}
						let fam = if i % 2 == 0 { Fam::Uri } else { Fam::Iri };
						if !f(Case { fam, embed: e.clone(), abs, segs: segs.clone(), ops: ops.clone() }, true) {
							return vec![];
						}
					}
				}
			}
		}
		vec!["a pushed segment of 1 .. 40 000 bytes in front of a query of T bytes, T over ~900 lengths up to 70 000", "segments with a ':' at every offset 0..=1100 (and the usual limits up to 70 000) pushed, popped and normalized", "histories of k+4 calls through one handle for k = 63..513 around powers of two (thorough: up to 4097), four op mixes", "initial paths of <= 2 segments over {a,'',.,..,a:b} x {relative, absolute} x 5 hosts (stand-alone, scheme only, bare reference, authority, empty authority) x all op sequences of length <= 2 over 12 ops"]
	}

	fn floors(_tier: Tier) -> Vec<(&'static str, u64)> {
		vec![
			("judged", 150_000),
			("stand-alone", 30_000),
			("embedded:authority", 30_000),
			("embedded:authority+empty-path", 2_000),
			("embedded:no-scheme-no-authority", 10_000),
			("embedded:scheme-only", 10_000),
			("initially-empty", 5_000),
			("two-or-more-edits", 100_000),
			("special-argument", 50_000),
		]
	}
}
