//! C08 — Eq, Ord and Hash agree with each other across all views of a value.

use std::borrow::Borrow;
use std::cmp::Ordering;
use std::collections::hash_map::DefaultHasher;
use std::collections::{BTreeSet, HashSet};
use std::hash::{Hash, Hasher};

use proptest::prelude::*;

use crate::engine::{guard, Ctx, Failure, Prop, Tier};
use crate::gen::Fam;
use crate::props::cmpgen::{all_utf8, equiv, triple, Kind, Triple};
use crate::{both_families, by_fam, ensure};

pub struct C08;

/// FNV-1a, written here so that the result does not depend on std's hasher.
pub struct Fnv(u64);
impl Default for Fnv {
	fn default() -> Self {
		Fnv(0xcbf29ce484222325)
	}
}
impl Hasher for Fnv {
	fn finish(&self) -> u64 {
		self.0
	}
	fn write(&mut self, bytes: &[u8]) {
		for b in bytes {
			self.0 ^= *b as u64;
			self.0 = self.0.wrapping_mul(0x100000001b3);
		}
	}
}

/// A hasher that is sensitive to HOW the bytes are fed: every `write` call mixes in its own length
/// first (as FxHash, aHash and hashbrown's default do in effect by consuming word-sized chunks).
/// `Hasher` explicitly allows this ("write(a); write(b)" need not equal "write(ab)"), so equal
/// values must produce the same SEQUENCE of calls, not only the same concatenated bytes.
pub struct Chunked(u64);
impl Default for Chunked {
	fn default() -> Self {
		Chunked(0x9e3779b97f4a7c15)
	}
}
impl Hasher for Chunked {
	fn finish(&self) -> u64 {
		self.0
	}
	fn write(&mut self, bytes: &[u8]) {
		for b in (bytes.len() as u64).to_le_bytes().iter().chain(bytes) {
			self.0 ^= *b as u64;
			self.0 = self.0.wrapping_mul(0x100000001b3).rotate_left(5);
		}
	}
	// integers are folded in their own way (as aHash and FxHash do): `write_u8(b)` is not `write(&[b])`
	fn write_u8(&mut self, i: u8) {
		self.0 = (self.0 ^ 0x01 ^ ((i as u64) << 8)).wrapping_mul(0x9e3779b97f4a7c15).rotate_left(7);
	}
	fn write_u16(&mut self, i: u16) {
		self.0 = (self.0 ^ 0x02 ^ ((i as u64) << 8)).wrapping_mul(0x9e3779b97f4a7c15).rotate_left(7);
	}
	fn write_u32(&mut self, i: u32) {
		self.0 = (self.0 ^ 0x04 ^ ((i as u64) << 8)).wrapping_mul(0x9e3779b97f4a7c15).rotate_left(7);
	}
	fn write_u64(&mut self, i: u64) {
		self.0 = (self.0 ^ 0x08 ^ i.rotate_left(8)).wrapping_mul(0x9e3779b97f4a7c15).rotate_left(7);
	}
	fn write_usize(&mut self, i: usize) {
		self.0 = (self.0 ^ 0x10 ^ (i as u64).rotate_left(8)).wrapping_mul(0x9e3779b97f4a7c15).rotate_left(7);
	}
	fn write_isize(&mut self, i: isize) {
		self.0 = (self.0 ^ 0x20 ^ (i as u64).rotate_left(8)).wrapping_mul(0x9e3779b97f4a7c15).rotate_left(7);
	}
}

pub fn h2<T: ?Sized + Hash>(v: &T) -> (u64, u64, u64) {
	let mut a = DefaultHasher::new();
	v.hash(&mut a);
	let mut b = Fnv::default();
	v.hash(&mut b);
	let mut c = Chunked::default();
	v.hash(&mut c);
	(a.finish(), b.finish(), c.finish())
}

fn gd<R>(what: &str, f: impl FnOnce() -> R) -> Result<R, Failure> {
	guard(f).map_err(|p| Failure::new(format!("panic:{}", p.loc), format!("{what} panicked at {}: {}", p.loc, crate::engine::truncate(&p.msg, 120))))
}

/// Laws on one unsized type.
fn laws<T: ?Sized + Eq + Ord + Hash>(t: &Triple, cx: &mut Ctx, a: &T, b: &T, c: &T) -> Result<(), Failure> {
	let vals = [(a, &t.a), (b, &t.b), (c, &t.c)];
	for i in 0..3 {
		for j in 0..3 {
			let (x, xs) = vals[i];
			let (y, ys) = vals[j];
			let eq = gd("==", || x == y)?;
			let ord = gd("cmp", || x.cmp(y))?;
			let rev = gd("cmp", || y.cmp(x))?;
			let pc = gd("partial_cmp", || x.partial_cmp(y))?;
			ensure!(ord == rev.reverse(), "cmp-not-antisymmetric", "{:?}.cmp({:?}) = {:?} but the reverse is {:?}", xs, ys, ord, rev);
			ensure!((ord == Ordering::Equal) == eq, "cmp-equal-vs-eq", "{:?} vs {:?}: cmp = {:?} but == is {}", xs, ys, ord, eq);
			ensure!(pc == Some(ord), "partial_cmp-vs-cmp", "{:?} vs {:?}: partial_cmp = {:?}, cmp = {:?}", xs, ys, pc, ord);
			if eq {
				let hx = gd("hash", || h2(x))?;
				let hy = gd("hash", || h2(y))?;
				ensure!(hx == hy, "eq-but-hash-differs", "{:?} == {:?} but their hashes differ ({:x?} vs {:x?})", xs, ys, hx, hy);
			}
			cx.obs(4);
		}
	}
	// transitivity of <=
	for p in [[0usize, 1, 2], [0, 2, 1], [1, 0, 2], [1, 2, 0], [2, 0, 1], [2, 1, 0]] {
		let (x, y, z) = (vals[p[0]].0, vals[p[1]].0, vals[p[2]].0);
		if x.cmp(y) != Ordering::Greater && y.cmp(z) != Ordering::Greater {
			ensure!(x.cmp(z) != Ordering::Greater, "cmp-not-transitive", "{:?} <= {:?} <= {:?} but the first is greater than the last", vals[p[0]].1, vals[p[1]].1, vals[p[2]].1);
		}
	}
	Ok(())
}

/// A key type `K` and a view `U` it can be borrowed as: hashing, ordering and
/// collection lookups must agree.
fn view<K, U>(name: &str, t: &Triple, cx: &mut Ctx, ka: K, kb: K) -> Result<(), Failure>
where
	K: Borrow<U> + Eq + Ord + Hash + Clone,
	U: ?Sized + Eq + Ord + Hash,
{
	let ua: &U = ka.borrow();
	let ub: &U = kb.borrow();
	let hk = gd("hash", || h2(&ka))?;
	let hu = gd("hash", || h2(ua))?;
	ensure!(hk == hu, format!("borrow-hash-differs:{name}"), "{name}: hash of key {:?} = {:x?}, hash of its borrowed view = {:x?}", t.a, hk, hu);
	let ok = gd("cmp", || ka.cmp(&kb))?;
	let ou = gd("cmp", || ua.cmp(ub))?;
	ensure!(ok == ou, format!("borrow-cmp-differs:{name}"), "{name}: {:?} vs {:?}: keys compare {:?}, views compare {:?}", t.a, t.b, ok, ou);
	let ek = gd("==", || ka == kb)?;
	let eu = gd("==", || ua == ub)?;
	ensure!(ek == eu, format!("borrow-eq-differs:{name}"), "{name}: {:?} vs {:?}: keys == {}, views == {}", t.a, t.b, ek, eu);
	// collections: insert a, look up through the view of b
	let found = gd("HashSet", || {
		let mut hs: HashSet<K> = HashSet::new();
		hs.insert(ka.clone());
		(hs.contains::<U>(ub), hs.contains::<U>(ua))
	})?;
	ensure!(found.1, format!("hashset-miss-own-view:{name}"), "{name}: HashSet containing {:?} does not find it through its own borrowed view", t.a);
	ensure!(found.0 == eu, format!("hashset-lookup:{name}"), "{name}: HashSet containing {:?}: lookup through the view of {:?} gives {}, equality says {}", t.a, t.b, found.0, eu);
	let found = gd("BTreeSet", || {
		let mut bs: BTreeSet<K> = BTreeSet::new();
		bs.insert(ka.clone());
		bs.insert(kb.clone());
		(bs.contains::<U>(ub), bs.contains::<U>(ua), bs.len())
	})?;
	ensure!(found.0 && found.1, format!("btreeset-miss:{name}"), "{name}: BTreeSet containing {:?} and {:?} does not find them through their views", t.a, t.b);
	ensure!((found.2 == 1) == ek, format!("btreeset-len:{name}"), "{name}: BTreeSet of {:?} and {:?} has {} elements, equality says {}", t.a, t.b, found.2, ek);
	cx.obs(7);
	Ok(())
}

/// An unsized value `K` and a view `U` (`impl Borrow<U> for K` on unsized types
/// cannot key a collection directly, but generic code may still rely on it).
fn view_unsized<K, U>(name: &str, t: &Triple, cx: &mut Ctx, ka: &K, kb: &K) -> Result<(), Failure>
where
	K: ?Sized + Borrow<U> + Eq + Ord + Hash,
	U: ?Sized + Eq + Ord + Hash,
{
	let ua: &U = ka.borrow();
	let ub: &U = kb.borrow();
	let hk = gd("hash", || h2(ka))?;
	let hu = gd("hash", || h2(ua))?;
	ensure!(hk == hu, format!("borrow-hash-differs:{name}"), "{name}: hash of {:?} = {:x?}, hash of its borrowed view = {:x?}", t.a, hk, hu);
	let ok = gd("cmp", || ka.cmp(kb))?;
	let ou = gd("cmp", || ua.cmp(ub))?;
	ensure!(ok == ou, format!("borrow-cmp-differs:{name}"), "{name}: {:?} vs {:?}: values compare {:?}, views compare {:?}", t.a, t.b, ok, ou);
	let ek = gd("==", || ka == kb)?;
	let eu = gd("==", || ua == ub)?;
	ensure!(ek == eu, format!("borrow-eq-differs:{name}"), "{name}: {:?} vs {:?}: values == {}, views == {}", t.a, t.b, ek, eu);
	cx.obs(3);
	Ok(())
}

both_families! {
	use super::{laws, view, view_unsized};

	fn cross_ord(t: &Triple, cx: &mut Ctx) -> Result<(), Failure> {
		let (xs, ys) = (&t.a, &t.b);
		let x = RiRef::new(xs.as_str()).unwrap();
		let y = RiRef::new(ys.as_str()).unwrap();
		let base = match guard(|| x.partial_cmp(y)) { Ok(v) => v, Err(_) => return Ok(()) };
		let xb = RiRefBuf::new(xs.as_str().into()).unwrap();
		let yb = RiRefBuf::new(ys.as_str().into()).unwrap();
		let mut views: Vec<(&str, Option<std::cmp::Ordering>)> = vec![];
		macro_rules! v { ($name:expr, $e:expr) => { match guard(|| $e) { Ok(r) => views.push(($name, r)), Err(p) => return Err(Failure::new("cross-type-panics", format!("{} on {:?} vs {:?} panicked: {}", $name, xs, ys, p.msg))) } } }
		v!("RiRef ? &RiRef", x.partial_cmp(&y));
		v!("RiRef ? RiRefBuf", x.partial_cmp(&yb));
		v!("RiRefBuf ? RiRefBuf", xb.partial_cmp(&yb));
		v!("RiRefBuf ? RiRef", xb.partial_cmp(y));
		v!("RiRefBuf ? &RiRef", xb.partial_cmp(&y));
		if let (Ok(xi), Ok(yi)) = (Ri::new(xs.as_str()), Ri::new(ys.as_str())) {
			let xib = RiBuf::new(xs.as_str().into()).unwrap();
			let yib = RiBuf::new(ys.as_str().into()).unwrap();
			v!("Ri ? Ri", xi.partial_cmp(yi));
			v!("Ri ? &Ri", xi.partial_cmp(&yi));
			v!("Ri ? RiBuf", xi.partial_cmp(&yib));
			v!("Ri ? RiRef", xi.partial_cmp(y));
			v!("Ri ? &RiRef", xi.partial_cmp(&y));
			v!("Ri ? RiRefBuf", xi.partial_cmp(&yb));
			v!("RiBuf ? RiBuf", xib.partial_cmp(&yib));
			v!("RiBuf ? Ri", xib.partial_cmp(yi));
			v!("RiBuf ? &Ri", xib.partial_cmp(&yi));
			v!("RiBuf ? RiRef", xib.partial_cmp(y));
			v!("RiBuf ? &RiRef", xib.partial_cmp(&y));
			v!("RiBuf ? RiRefBuf", xib.partial_cmp(&yb));
			v!("RiRef ? Ri", x.partial_cmp(yi));
			v!("RiRef ? &Ri", x.partial_cmp(&yi));
			v!("RiRef ? RiBuf", x.partial_cmp(&yib));
			v!("RiRefBuf ? Ri", xb.partial_cmp(yi));
			v!("RiRefBuf ? &Ri", xb.partial_cmp(&yi));
			v!("RiRefBuf ? RiBuf", xb.partial_cmp(&yib));
			// hashes of all four forms
			let hs = [h2(x), h2(&xb), h2(xi), h2(&xib)];
			ensure!(hs.iter().all(|h| *h == hs[0]), "forms-hash-differently", "{:?}: RiRef / RiRefBuf / Ri / RiBuf hash to {:x?}", xs, hs);
			cx.class("cross-type:full");
		}
		for (name, r) in &views {
			ensure!(*r == base, format!("cross-type-ord-disagrees:{name}"), "{name} on {:?} vs {:?} gives {:?}, RiRef vs RiRef gives {:?}", xs, ys, r, base);
		}
		cx.obs(views.len() as u64);
		Ok(())
	}

	pub fn check(t: &Triple, cx: &mut Ctx) -> Result<bool, Failure> {
		macro_rules! comp {
			($T:ty, $TBuf:ty, $name:expr) => {{
				let a = match <$T>::new(t.a.as_str()) { Ok(v) => v, Err(_) => return Ok(false) };
				let b = match <$T>::new(t.b.as_str()) { Ok(v) => v, Err(_) => return Ok(false) };
				let c = match <$T>::new(t.c.as_str()) { Ok(v) => v, Err(_) => return Ok(false) };
				laws::<$T>(t, cx, a, b, c)?;
				let ab = <$TBuf>::new(t.a.as_str().into()).unwrap();
				let bb = <$TBuf>::new(t.b.as_str().into()).unwrap();
				let cb = <$TBuf>::new(t.c.as_str().into()).unwrap();
				laws::<$TBuf>(t, cx, &ab, &bb, &cb)?;
				ensure!((ab == bb) == (a == b) && ab.cmp(&bb) == a.cmp(b) && h2(&ab) == h2(a), "owned-vs-borrowed", "{}: owned and borrowed forms of {:?} / {:?} compare or hash differently", $name, t.a, t.b);
				view::<$TBuf, $T>($name, t, cx, ab, bb)?;
			}};
		}
		// a value together with VIEWS OF ITS OWN BUFFER that start at the same address (valid prefixes of its
		// text, base(), directory(), parent): the laws hold for them like for any other values
		macro_rules! aliased {
			($T:ty) => {{
				if <$T>::new(t.a.as_str()).is_ok() {
					let v = <$T>::new(t.a.as_str()).unwrap();
					for k in crate::gen::valid_prefix_cuts(t.a.as_str(), 4, |p| <$T>::new(p).is_ok()) {
						let w = <$T>::new(&t.a.as_str()[..k]).unwrap();
						let tt = Triple { fam: t.fam, kind: t.kind, a: t.a.clone(), b: t.a[..k].to_string(), c: t.a.clone() };
						laws::<$T>(&tt, cx, v, w, v).map_err(|f| Failure::new(format!("aliased:{}", f.sig), format!("(second value is a prefix view of the first one's buffer) {}", f.msg)))?;
						cx.class("aliased-prefix-view");
					}
				}
			}};
		}
		match t.kind {
			Kind::Reference => aliased!(RiRef),
			Kind::Full => aliased!(Ri),
			Kind::Authority => aliased!(Authority),
			Kind::Path => aliased!(Path),
			Kind::Segment => aliased!(Segment),
			Kind::Host => aliased!(Host),
			Kind::UserInfo => aliased!(UserInfo),
			Kind::Query => aliased!(Query),
			Kind::Fragment => aliased!(Fragment),
			Kind::Scheme => aliased!(Scheme),
			Kind::Port => aliased!(Port),
		}
		match t.kind {
			Kind::Reference => {
				comp!(RiRef, RiRefBuf, "RiRefBuf as RiRef");
				cross_ord(t, cx)?;
			}
			Kind::Full => {
				comp!(Ri, RiBuf, "RiBuf as Ri");
				cross_ord(t, cx)?;
				let ab = RiBuf::new(t.a.as_str().into()).unwrap();
				let bb = RiBuf::new(t.b.as_str().into()).unwrap();
				view::<RiBuf, RiRef>("RiBuf as RiRef", t, cx, ab.clone(), bb.clone())?;
				let a = Ri::new(t.a.as_str()).unwrap();
				let b = Ri::new(t.b.as_str()).unwrap();
				view_unsized::<Ri, RiRef>("Ri as RiRef", t, cx, a, b)?;
				cx.class("view:full-as-reference");
			}
			Kind::Authority => comp!(Authority, AuthorityBuf, "AuthorityBuf as Authority"),
			Kind::Path => {
				// PathBuf derives neither Eq nor Hash: only the borrowed type is comparable
				let a = match Path::new(t.a.as_str()) { Ok(v) => v, Err(_) => return Ok(false) };
				let b = match Path::new(t.b.as_str()) { Ok(v) => v, Err(_) => return Ok(false) };
				let c = match Path::new(t.c.as_str()) { Ok(v) => v, Err(_) => return Ok(false) };
				laws::<Path>(t, cx, a, b, c)?;
			}
			Kind::Segment => comp!(Segment, SegmentBuf, "SegmentBuf as Segment"),
			Kind::Host => comp!(Host, HostBuf, "HostBuf as Host"),
			Kind::UserInfo => comp!(UserInfo, UserInfoBuf, "UserInfoBuf as UserInfo"),
			Kind::Query => comp!(Query, QueryBuf, "QueryBuf as Query"),
			Kind::Fragment => comp!(Fragment, FragmentBuf, "FragmentBuf as Fragment"),
			Kind::Scheme => comp!(Scheme, SchemeBuf, "SchemeBuf as Scheme"),
			Kind::Port => comp!(Port, PortBuf, "PortBuf as Port"),
		}
		Ok(true)
	}
}

/// URI values viewed as IRI values (`Borrow<Iri>` / `Borrow<IriRef>` for `Uri` and `UriBuf`).
fn uri_as_iri(t: &Triple, cx: &mut Ctx) -> Result<(), Failure> {
	use iref::{Iri, IriRef, Uri, UriBuf};
	if let (Ok(a), Ok(b)) = (Uri::new(t.a.as_str()), Uri::new(t.b.as_str())) {
		view_unsized::<Uri, Iri>("Uri as Iri", t, cx, a, b)?;
		view_unsized::<Uri, IriRef>("Uri as IriRef", t, cx, a, b)?;
		view_unsized::<Uri, iref::UriRef>("Uri as UriRef", t, cx, a, b)?;
		let ab = UriBuf::new(t.a.as_bytes().to_vec()).unwrap();
		let bb = UriBuf::new(t.b.as_bytes().to_vec()).unwrap();
		view::<UriBuf, Iri>("UriBuf as Iri", t, cx, ab.clone(), bb.clone())?;
		view::<UriBuf, IriRef>("UriBuf as IriRef", t, cx, ab, bb)?;
		cx.class("view:uri-as-iri");
	}
	Ok(())
}

/// Data URLs: `DataUrlBuf: Borrow<DataUrl>` (feature `data`).
fn data_url_views(t: &Triple, cx: &mut Ctx) -> Result<(), Failure> {
	use iref::uri::data::{DataUrl, DataUrlBuf};
	if let (Ok(a), Ok(b), Ok(c)) = (DataUrl::new(t.a.as_str()), DataUrl::new(t.b.as_str()), DataUrl::new(t.c.as_str())) {
		laws::<DataUrl>(t, cx, a, b, c)?;
		let ab = match DataUrlBuf::new(t.a.as_bytes().to_vec()) { Ok(x) => x, Err(_) => return Ok(()) /* constructor disagreement is C18's subject */ };
		let bb = match DataUrlBuf::new(t.b.as_bytes().to_vec()) { Ok(x) => x, Err(_) => return Ok(()) /* constructor disagreement is C18's subject */ };
		let cb = match DataUrlBuf::new(t.c.as_bytes().to_vec()) { Ok(x) => x, Err(_) => return Ok(()) /* constructor disagreement is C18's subject */ };
		laws::<DataUrlBuf>(t, cx, &ab, &bb, &cb)?;
		ensure!((ab == bb) == (a == b) && ab.cmp(&bb) == a.cmp(b) && h2(&ab) == h2(a), "owned-vs-borrowed:DataUrl", "DataUrlBuf and DataUrl forms of {:?} / {:?} compare or hash differently (==: {} vs {}, hash equal: {})", t.a, t.b, ab == bb, a == b, h2(&ab) == h2(a));
		view::<DataUrlBuf, DataUrl>("DataUrlBuf as DataUrl", t, cx, ab, bb)?;
		cx.class("view:data-url");
	}
	Ok(())
}

impl Prop for C08 {
	type Case = Triple;
	const ID: &'static str = "C08";

	fn rule() -> String {
		"cases = the C07 triples (family, kind, a, b, c: chains of metamorphic variants or independent values; ill-formed %XX octets included). Oracle (metamorphic): on all 9 ordered pairs: a == b => equal hashes under three fixed hashers (std DefaultHasher with fixed keys, FNV-1a written in the harness, and a hasher sensitive to how the bytes are split over `write` calls and to which integer method is used, as FxHash/aHash are); cmp antisymmetric, cmp == Equal <=> ==, partial_cmp == Some(cmp); <= transitive over the 6 permutations; owned forms give the same answers as borrowed forms; all 23 cross-type PartialOrd impls agree; the four forms RiRef/RiRefBuf/Ri/RiBuf of one text hash identically; for every Borrow<U> for K between the library's own types (every TBuf->T, DataUrlBuf->DataUrl, RiBuf->RiRef, Ri->RiRef, Uri/UriBuf->Iri/IriRef): hash(k) == hash(k.borrow()), cmp and == agree, HashSet<K>/BTreeSet<K> lookups through the view of an equal value hit and of an unequal value miss. The same laws on a value paired with up to 4 prefix VIEWS of its own buffer (same start address). Non-trivial: an equal-but-textually-different pair, or a lookup through a view of another type.".into()
	}

	fn cases(tier: Tier) -> u64 {
		tier.pick(200_000, 6_000_000)
	}

	fn strategy(_tier: Tier) -> BoxedStrategy<Triple> {
		triple(true)
	}

	fn enumerate(_tier: Tier, shard: usize, nshards: usize, f: &mut dyn FnMut(Triple, bool) -> bool) -> Vec<&'static str> {
		crate::props::cmpgen::long_near_misses(shard, nshards, f)
	}

	fn check(t: &Triple, cx: &mut Ctx) -> Result<(), Failure> {
		if t.fam == Fam::Uri && !(t.a.is_ascii() && t.b.is_ascii() && t.c.is_ascii()) {
			cx.class("skipped-nonascii-uri");
			return Ok(());
		}
		let judged = by_fam!(t.fam, check(t, cx))?;
		if !judged {
			cx.class("rejected-by-library");
			return Ok(());
		}
		if t.fam == Fam::Uri && t.kind == Kind::Full {
			uri_as_iri(t, cx)?;
			data_url_views(t, cx)?;
		}
		cx.class("judged");
		cx.class(t.kind.label());
		let mut nt = matches!(t.kind, Kind::Full);
		for (x, y) in [(&t.a, &t.b), (&t.b, &t.c), (&t.a, &t.c)] {
			if equiv(t.kind, x, y) && x != y {
				nt = true;
				cx.class("equal-but-textually-different");
			}
		}
		cx.nt_if(nt);
		cx.class_if(!all_utf8(t.kind, &t.a) || !all_utf8(t.kind, &t.b), "non-utf8-octets");
		Ok(())
	}

	fn floors(_tier: Tier) -> Vec<(&'static str, u64)> {
		let mut v: Vec<(&'static str, u64)> = crate::props::cmpgen::KINDS.iter().map(|k| (k.label(), 3_000)).collect();
		v.extend([("judged", 100_000), ("equal-but-textually-different", 30_000), ("view:full-as-reference", 5_000), ("view:uri-as-iri", 2_000), ("view:data-url", 250), ("cross-type:full", 5_000)]);
		v
	}
}
