//! C05 — component setters change exactly the targeted component.

use proptest::prelude::*;
use serde::{Deserialize, Serialize};

use crate::engine::{guard, Ctx, Failure, Prop, Tier};
use crate::gen::{self, Fam, Opt};
use crate::oracle::split::{recompose, split, Parts};
use crate::{both_families, by_fam, ensure, fail};

#[derive(Debug, Clone, Hash, PartialEq, Eq, Serialize, Deserialize)]
pub enum SetOp {
	Scheme(Option<String>),
	Authority(Option<String>),
	Path(String),
	Query(Option<String>),
	Fragment(Option<String>),
}

#[derive(Debug, Clone, Hash, Serialize, Deserialize)]
pub struct Case {
	pub fam: Fam,
	pub full: bool,
	pub initial: String,
	pub op: SetOp,
	/// setter calls made on OTHER buffers, on the same thread, just before (each judged as well)
	#[serde(default)]
	pub before: Vec<Prev>,
}

#[derive(Debug, Clone, Hash, Serialize, Deserialize)]
pub struct Prev {
	pub full: bool,
	pub initial: String,
	pub op: SetOp,
}

pub struct C05;

pub fn setop(o: Opt, full: bool) -> BoxedStrategy<SetOp> {
	let scheme = if full {
		gen::scheme().prop_map(|s| SetOp::Scheme(Some(s))).boxed()
	} else {
		gen::opt_of(gen::scheme(), 6).prop_map(SetOp::Scheme).boxed()
	};
	prop_oneof![
		2 => scheme,
		3 => gen::opt_of(gen::authority(o), 6).prop_map(SetOp::Authority),
		4 => gen::path(o).prop_map(SetOp::Path),
		1 => proptest::sample::select(vec!["a:b", ":", "1:b/c", "x:y/z:w", "a:", "//", "//a:b", "///", "a//b", ""]).prop_map(|s| SetOp::Path(s.to_string())),
		2 => gen::opt_of(gen::query(o), 6).prop_map(SetOp::Query),
		2 => gen::opt_of(gen::fragment(o), 6).prop_map(SetOp::Fragment),
	]
	.boxed()
}

/// The documented adjustments of the path for the context after the call.
/// Returns every acceptable path text (one, or two for the empty path under an
/// authority, where the statement allows but does not require the '/').
pub fn adjusted_paths(p: &str, scheme: bool, authority: bool) -> Vec<String> {
	if authority {
		if p.is_empty() {
			return vec![String::new(), "/".to_string()];
		}
		if !p.starts_with('/') {
			return vec![format!("/{p}")];
		}
		return vec![p.to_string()];
	}
	if p.starts_with("//") {
		return vec![format!("/.{p}")];
	}
	if !scheme && !p.starts_with('/') {
		let first = p.split('/').next().unwrap_or("");
		if first.contains(':') {
			return vec![format!("./{p}")];
		}
	}
	vec![p.to_string()]
}

/// Expected component tuples after `op` (path alternatives expanded).
pub fn expected_after(c: &Parts, op: &SetOp) -> Vec<Parts> {
	let mut n = c.clone();
	let mut requested_path = c.path.clone();
	match op {
		SetOp::Scheme(s) => n.scheme = s.clone(),
		SetOp::Authority(a) => n.authority = a.clone(),
		SetOp::Path(p) => requested_path = p.clone(),
		SetOp::Query(q) => n.query = q.clone(),
		SetOp::Fragment(f) => n.fragment = f.clone(),
	}
	adjusted_paths(&requested_path, n.scheme.is_some(), n.authority.is_some())
		.into_iter()
		.map(|p| {
			let mut x = n.clone();
			x.path = p;
			x
		})
		.collect()
}

both_families! {
	use crate::props::api::opt_s;

	pub fn op_valid(op: &SetOp) -> bool {
		match op {
			SetOp::Scheme(Some(s)) => Scheme::new(s.as_str()).is_ok(),
			SetOp::Authority(Some(a)) => Authority::new(a.as_str()).is_ok(),
			SetOp::Path(p) => Path::new(p.as_str()).is_ok(),
			SetOp::Query(Some(q)) => Query::new(q.as_str()).is_ok(),
			SetOp::Fragment(Some(f)) => Fragment::new(f.as_str()).is_ok(),
			_ => true,
		}
	}

	pub fn apply_ref(b: &mut RiRefBuf, op: &SetOp) {
		match op {
			SetOp::Scheme(s) => b.set_scheme(s.as_deref().map(|s| Scheme::new(s).unwrap())),
			SetOp::Authority(a) => b.set_authority(a.as_deref().map(|a| Authority::new(a).unwrap())),
			SetOp::Path(p) => b.set_path(Path::new(p.as_str()).unwrap()),
			SetOp::Query(q) => b.set_query(q.as_deref().map(|q| Query::new(q).unwrap())),
			SetOp::Fragment(f) => b.set_fragment(f.as_deref().map(|f| Fragment::new(f).unwrap())),
		}
	}

	pub fn apply_full(b: &mut RiBuf, op: &SetOp) {
		match op {
			SetOp::Scheme(Some(s)) => b.set_scheme(Scheme::new(s.as_str()).unwrap()),
			SetOp::Scheme(None) => {}
			SetOp::Authority(a) => b.set_authority(a.as_deref().map(|a| Authority::new(a).unwrap())),
			SetOp::Path(p) => b.set_path(Path::new(p.as_str()).unwrap()),
			SetOp::Query(q) => b.set_query(q.as_deref().map(|q| Query::new(q).unwrap())),
			SetOp::Fragment(f) => b.set_fragment(f.as_deref().map(|f| Fragment::new(f).unwrap())),
		}
	}

	fn judge(initial: &str, op: &SetOp, got: &str, exps: &[Parts], valid: bool, acc: Parts) -> Result<(), Failure> {
		let texts: Vec<String> = exps.iter().map(recompose).collect();
		let kind = match op { SetOp::Scheme(_) => "set_scheme", SetOp::Authority(_) => "set_authority", SetOp::Path(_) => "set_path", SetOp::Query(_) => "set_query", SetOp::Fragment(_) => "set_fragment" };
		if !texts.iter().any(|t| t == got) {
			// classify
			let why = if !valid { "invalid-text" } else {
				let g = split(got);
				let e = &exps[0];
				if g.scheme != e.scheme { "scheme-differs" }
				else if g.authority != e.authority { "authority-differs" }
				else if g.query != e.query { "query-differs" }
				else if g.fragment != e.fragment { "fragment-differs" }
				else { "path-differs" }
			};
			fail!(format!("{kind}:{why}"), "{:?} {:?}: text is {:?}, expected {:?}", initial, op, got, texts);
		}
		ensure!(valid, format!("{kind}:invalid-text"), "{:?} {:?}: text {:?} does not re-parse", initial, op, got);
		ensure!(exps.iter().any(|e| *e == acc), format!("{kind}:accessors"), "{:?} {:?}: accessors after the call return {:?}, expected one of {:?}", initial, op, acc, exps);
		Ok(())
	}

	pub fn check(case: &Case, cx: &mut Ctx) -> Result<bool, Failure> {
		let initial = case.initial.as_str();
		let c = split(initial);
		let exps = expected_after(&c, &case.op);
		if case.full {
			let mut b = match RiBuf::new(initial.into()) { Ok(b) => b, Err(_) => return Ok(false) };
			if let Err(p) = guard(|| apply_full(&mut b, &case.op)) {
				fail!(format!("panic:{}", p.loc), "{:?} {:?} panicked at {}: {}", initial, case.op, p.loc, p.msg);
			}
			let got = String::from_utf8_lossy(b.as_bytes()).to_string();
			let valid = std::str::from_utf8(b.as_bytes()).is_ok() && RiBuf::new(got.as_str().into()).is_ok();
			let acc = guard(|| Parts { scheme: Some(b.scheme().as_str().to_string()), authority: opt_s(b.authority()), path: b.path().as_str().to_string(), query: opt_s(b.query()), fragment: opt_s(b.fragment()) })
				.map_err(|p| Failure::new(format!("panic-accessor:{}", p.loc), format!("{:?} {:?}: accessors panic after the call (text {:?})", initial, case.op, got)))?;
			judge(initial, &case.op, &got, &exps, valid, acc)?;
		} else {
			let mut b = match RiRefBuf::new(initial.into()) { Ok(b) => b, Err(_) => return Ok(false) };
			if let Err(p) = guard(|| apply_ref(&mut b, &case.op)) {
				fail!(format!("panic:{}", p.loc), "{:?} {:?} panicked at {}: {}", initial, case.op, p.loc, p.msg);
			}
			let got = String::from_utf8_lossy(b.as_bytes()).to_string();
			let valid = std::str::from_utf8(b.as_bytes()).is_ok() && RiRefBuf::new(got.as_str().into()).is_ok();
			let acc = guard(|| Parts { scheme: opt_s(b.scheme()), authority: opt_s(b.authority()), path: b.path().as_str().to_string(), query: opt_s(b.query()), fragment: opt_s(b.fragment()) })
				.map_err(|p| Failure::new(format!("panic-accessor:{}", p.loc), format!("{:?} {:?}: accessors panic after the call (text {:?})", initial, case.op, got)))?;
			judge(initial, &case.op, &got, &exps, valid, acc)?;
		}
		cx.obs(3);
		Ok(true)
	}
}

impl Prop for C05 {
	type Case = Case;
	const ID: &'static str = "C05";

	fn rule() -> String {
		"cases = (family, owned type in {full, reference}, valid buffer text from G-REF, one setter call with a value from the pools or removal). Oracle: exact expected text = section 5.3 recomposition of the Appendix-B components with the target replaced and the path adjusted by exactly the three documented disambiguations (leading '/' under an authority - for the empty path both '' and '/' are accepted; '/.' before '//' without authority; './' before a colon-bearing first segment without scheme and authority); anything else, including an unnecessary shield, fails. Also: text re-parses, accessors return the expected tuple. Non-trivial: a later component contains the delimiter the setter scans for, or the splice changes length with a tail >= 32 bytes, or a disambiguation is expected.".into()
	}

	fn cases(tier: Tier) -> u64 {
		tier.pick(300_000, 8_000_000)
	}

	fn strategy(_tier: Tier) -> BoxedStrategy<Case> {
		(gen::fam(), any::<bool>())
			.prop_flat_map(|(f, full)| {
				let o = Opt::new(f).with_nonutf8(true);
				(gen::reference(o, full), setop(o, full), 0u8..10, proptest::collection::vec(gen::variant(), 1..=2)).prop_map(move |(initial, op, rel, vars)| {
					// 20 %: the new value is an equal-but-not-identical spelling of the current one
					// (a setter that compares before writing must still write)
					let op = if rel < 2 {
						let cur = split(&initial);
						let eqv: Vec<gen::Variant> = vars.into_iter().filter(|v| matches!(v, gen::Variant::Encode(..) | gen::Variant::DecodeUnreserved(_) | gen::Variant::HexCase(_) | gen::Variant::EncodeWholeHost(_))).collect();
						let mut v = cur.clone();
						for x in &eqv {
							v = gen::apply_variant(&v, x);
						}
						match op {
							SetOp::Query(_) if v.query != cur.query => SetOp::Query(v.query),
							SetOp::Fragment(_) if v.fragment != cur.fragment => SetOp::Fragment(v.fragment),
							SetOp::Authority(_) if v.authority != cur.authority => SetOp::Authority(v.authority),
							SetOp::Path(_) if v.path != cur.path => SetOp::Path(v.path),
							other => other,
						}
					} else {
						op
					};
					Case { fam: f, full, initial, op, before: vec![] }
				})
			})
			.boxed()
	}

	fn check(case: &Case, cx: &mut Ctx) -> Result<(), Failure> {
		let nonascii = |s: &Option<String>| s.as_deref().map(|x| !x.is_ascii()).unwrap_or(false);
		if case.fam == Fam::Uri
			&& (!case.initial.is_ascii()
				|| match &case.op {
					SetOp::Scheme(s) | SetOp::Authority(s) | SetOp::Query(s) | SetOp::Fragment(s) => nonascii(s),
					SetOp::Path(p) => !p.is_ascii(),
				}) {
			cx.class("skipped-nonascii-uri");
			return Ok(());
		}
		let valid = match case.fam {
			Fam::Uri => u::op_valid(&case.op),
			Fam::Iri => i::op_valid(&case.op),
		};
		if !valid || (case.full && case.op == SetOp::Scheme(None)) {
			cx.class("skipped-invalid-argument");
			return Ok(());
		}
		for p in &case.before {
			let pc = Case { fam: case.fam, full: p.full, initial: p.initial.clone(), op: p.op.clone(), before: vec![] };
			let ok = match case.fam {
				Fam::Uri => u::op_valid(&p.op),
				Fam::Iri => i::op_valid(&p.op),
			};
			if ok && !(p.full && p.op == SetOp::Scheme(None)) {
				let mut scratch = Ctx::default();
				by_fam!(case.fam, check(&pc, &mut scratch)).map_err(|f| Failure::new(format!("predecessor:{}", f.sig), format!("(call made just before on another buffer) {}", f.msg)))?;
				cx.obs(scratch.observations);
			}
			cx.class("with-predecessor-call");
		}
		let judged = by_fam!(case.fam, check(case, cx)).map_err(|f| if case.before.is_empty() { f } else { Failure::new(format!("after-other-call:{}", f.sig), format!("(right after {:?} on other buffers, same thread) {}", case.before, f.msg)) })?;
		if !judged {
			cx.class("rejected-by-library");
			return Ok(());
		}
		cx.class("judged");
		let c = split(&case.initial);
		let exps = expected_after(&c, &case.op);
		let requested = match &case.op {
			SetOp::Path(p) => p.clone(),
			_ => c.path.clone(),
		};
		let disamb = exps[0].path != requested;
		let later_delim = match &case.op {
			SetOp::Scheme(_) => c.path.contains(':') || c.query.as_deref().map(|q| q.contains(':')).unwrap_or(false),
			SetOp::Authority(_) => {
				c.path.contains("//") || c.query.as_deref().map(|q| q.contains('/')).unwrap_or(false)
			}
			SetOp::Path(_) => c.query.as_deref().map(|q| q.contains('/')).unwrap_or(false) || c.fragment.as_deref().map(|q| q.contains('?')).unwrap_or(false),
			SetOp::Query(_) => c.fragment.as_deref().map(|q| q.contains('?')).unwrap_or(false) || c.query.as_deref().map(|q| q.contains('?')).unwrap_or(false),
			SetOp::Fragment(_) => c.fragment.as_deref().map(|q| q.contains('#') || q.contains('?')).unwrap_or(false),
		};
		let lenchange = recompose(&exps[0]).len() != case.initial.len() && case.initial.len() >= 32;
		cx.nt_if(disamb || later_delim || lenchange);
		cx.class_if(disamb, "disambiguation-expected");
		cx.class_if(disamb && exps[0].path.starts_with("/./"), "disamb:/.//");
		cx.class_if(disamb && exps[0].path.starts_with("./"), "disamb:./colon");
		cx.class_if(disamb && exps[0].authority.is_some(), "disamb:leading-slash");
		cx.class_if(later_delim, "later-delimiter");
		cx.class_if(lenchange, "length-change-long-tail");
		cx.class(match &case.op {
			SetOp::Scheme(None) => "set_scheme(None)",
			SetOp::Scheme(_) => "set_scheme",
			SetOp::Authority(None) => "set_authority(None)",
			SetOp::Authority(_) => "set_authority",
			SetOp::Path(_) => "set_path",
			SetOp::Query(None) => "set_query(None)",
			SetOp::Query(_) => "set_query",
			SetOp::Fragment(None) => "set_fragment(None)",
			SetOp::Fragment(_) => "set_fragment",
		});
		Ok(())
	}

	fn enumerate(tier: Tier, shard: usize, nshards: usize, f: &mut dyn FnMut(Case, bool) -> bool) -> Vec<&'static str> {
		// huge values replacing small ones, small replacing huge, huge replacing huge
		{
			let mut gi = 0usize;
			for n in gen::huge_sizes(tier) {
				let x = gen::filler(n);
				let y = gen::filler(n / 2 + 7).to_uppercase();
				// (a buffer whose ONLY large part is the component being replaced: afterwards almost all of its
				// capacity is unused)
				let inits = ["s://u@h:1/p?q#f".to_string(), format!("s://{x}/{x}?{x}#{x}"), "s:?#".to_string(), format!("s://h/p?{x}#frag"), format!("s://h/{x}?q#frag"), format!("s://{x}/p?q#frag"), format!("s://h/p?q#{x}")];
				let ops = [
					SetOp::Path(format!("/{x}")), SetOp::Path(format!("/{y}")), SetOp::Path("/p".into()), SetOp::Path(String::new()),
					SetOp::Query(Some(x.clone())), SetOp::Query(Some(y.clone())), SetOp::Query(Some("r".into())), SetOp::Query(None),
					SetOp::Fragment(Some(x.clone())), SetOp::Fragment(Some("r".into())), SetOp::Fragment(None),
					SetOp::Authority(Some(x.clone())), SetOp::Authority(Some(format!("{y}@{x}:{}", gen::digits(n / 3)))), SetOp::Authority(Some("g".into())), SetOp::Authority(None),
					SetOp::Scheme(Some("x".into())),
				];
				for initial in &inits {
					for op in &ops {
						gi += 1;
						if gi % nshards != shard {
							continue;
						}
						let fam = if gi % 2 == 0 { Fam::Uri } else { Fam::Iri };
						if !f(Case { fam, full: gi % 3 == 0, initial: initial.clone(), op: op.clone(), before: vec![] }, true) {
							return vec![];
						}
					}
				}
			}
		}
		// every ORDERED PAIR of calls from a small related set, made back to back on two different buffers
		// (anything remembered from the first call - scratch text, offsets, lengths - must not reach the second)
		{
			let contexts = ["s://h/old?q#f", "q?x#y", "s:old", "//h", "", "s://h"];
			let mut calls: Vec<(bool, String, SetOp)> = vec![];
			for (ci, c) in contexts.iter().enumerate() {
				let full = c.starts_with("s:") && ci % 2 == 0;
				for p in ["a:b", "xa:b", "//x", "y//x", "/y//x", "./a:b", "/.//x", "p", "/p", "", "xp", "x/p"] {
					calls.push((full, c.to_string(), SetOp::Path(p.to_string())));
				}
				for op in [SetOp::Authority(Some("g".into())), SetOp::Authority(Some("xg".into())), SetOp::Authority(None), SetOp::Scheme(Some("t".into())), SetOp::Query(Some("a:b".into())), SetOp::Query(None), SetOp::Fragment(Some("//x".into())), SetOp::Fragment(None)] {
					calls.push((full, c.to_string(), op));
				}
			}
			let mut pi = 0usize;
			for a in &calls {
				for b in &calls {
					pi += 1;
					if pi % nshards != shard {
						continue;
					}
					let fam = if pi % 2 == 0 { Fam::Uri } else { Fam::Iri };
					if !f(Case { fam, full: b.0, initial: b.1.clone(), op: b.2.clone(), before: vec![Prev { full: a.0, initial: a.1.clone(), op: a.2.clone() }] }, true) {
						return vec![];
					}
				}
			}
		}
		// scheme length and the offset of the first ':' inside a first segment: every length 0..=1100 and the usual limits
		for (i, n) in gen::sweep_lengths(1100, 70_000).into_iter().enumerate() {
			if i % nshards != shard {
				continue;
			}
			let x = gen::filler(n);
			let u = "_".repeat(n);
			for (k, (initial, op)) in [
				(format!("s{x}://h//b/c?q#f"), SetOp::Authority(None)),
				(format!("s{x}://h/b?q#f"), SetOp::Path("c:d".into())),
				(format!("s{x}:a/b"), SetOp::Authority(Some("g".into()))),
				(format!("s:{u}:b/c?q"), SetOp::Scheme(None)),
				(format!("s:x{x}:b/c#f"), SetOp::Scheme(None)),
				("?q#f".to_string(), SetOp::Path(format!("{u}:b"))),
				(format!("//h/{u}:b"), SetOp::Authority(None)),
				(format!("s://h/p?{u}#f"), SetOp::Scheme(Some(format!("t{x}")))),
			].into_iter().enumerate() {
				let fam = if (i + k) % 2 == 0 { Fam::Uri } else { Fam::Iri };
				if !f(Case { fam, full: false, initial, op, before: vec![] }, true) {
					return vec![];
				}
			}
		}
		// the component(s) AFTER the edited one of every length 0..=25 000 (block-wise tail moves)
		{
			let maxlen = tier.pick(25_000usize, 70_000);
			for n in 0..=maxlen {
				if n % nshards != shard {
					continue;
				}
				let x = gen::filler(n);
				let (initial, op) = match n % 4 {
					0 => (format!("s://h/p?q#{x}"), SetOp::Query(Some("longer-query".into()))),
					1 => (format!("s://h/p?{x}#f"), SetOp::Path("/a/longer/path".into())),
					2 => (format!("s://h/{x}?q#f"), SetOp::Authority(Some("user@longer.example:8080".into()))),
					_ => (format!("//h/p?q#{x}"), SetOp::Scheme(Some("scheme".into()))),
				};
				let fam = if n % 8 < 4 { Fam::Uri } else { Fam::Iri };
				if !f(Case { fam, full: false, initial, op, before: vec![] }, true) {
					return vec![];
				}
			}
			// and every length through each of the four edits around the block sizes people pick
			for base in [4096usize, 8192, 10_240, 16_384, 20_480, 32_768, 65_536] {
				for d in 0..3usize {
					let n = base + d - 1;
					let x = gen::filler(n);
					for (k, (initial, op)) in [
						(format!("s://h/p?q#{x}"), SetOp::Query(Some("longer-query".into()))),
						(format!("s://h/p?{x}#f"), SetOp::Path("/a/longer/path".into())),
						(format!("s://h/{x}?q#f"), SetOp::Authority(Some("user@longer.example:8080".into()))),
						(format!("//h/p?q#{x}"), SetOp::Scheme(Some("scheme".into()))),
						(format!("s://h/p?q#{x}"), SetOp::Fragment(Some(format!("{x}y")))),
					].into_iter().enumerate() {
						if (n + k) % nshards != shard {
							continue;
						}
						if !f(Case { fam: Fam::Iri, full: false, initial, op, before: vec![] }, true) {
							return vec![];
						}
					}
				}
			}
		}
		// small complete product: every presence/emptiness combination x path forms x every setter x small value sets
		let schemes: [Option<&str>; 2] = [None, Some("s")];
		let auths: [Option<&str>; 4] = [None, Some(""), Some("h"), Some("u@h:1")];
		let paths = ["", "/", "a", "/a", "a:b", "//a", "a/b", "/a//b", "./a:b", "/.//a"];
		let qs: [Option<&str>; 3] = [None, Some(""), Some("q?/:")];
		let fs: [Option<&str>; 3] = [None, Some(""), Some("f?/:")];
		let mut ops: Vec<SetOp> = vec![];
		for v in [None, Some("x"), Some("a1+")] {
			ops.push(SetOp::Scheme(v.map(|s: &str| s.to_string())))
		}
		for v in [None, Some(""), Some("g"), Some("u:p@[::1]:8")] {
			ops.push(SetOp::Authority(v.map(|s: &str| s.to_string())))
		}
		for v in ["", "/", "p", "/p", "a:b", "//x", "x//y", "./z:w", ":", "/:"] {
			ops.push(SetOp::Path(v.to_string()))
		}
		for v in [None, Some(""), Some("r"), Some("a/b?c")] {
			ops.push(SetOp::Query(v.map(|s: &str| s.to_string())))
			;
			ops.push(SetOp::Fragment(v.map(|s: &str| s.to_string())))
		}
		let mut i = 0usize;
		for sc in schemes {
			for au in auths {
				for pa in paths {
					for q in qs {
						for fr in fs {
							let (abs, sg) = crate::oracle::split::segs(pa);
							let p = gen::repair(Parts { scheme: sc.map(|s| s.to_string()), authority: au.map(|s| s.to_string()), path: String::new(), query: q.map(|s| s.to_string()), fragment: fr.map(|s| s.to_string()) }, abs, sg, false);
							let initial = recompose(&p);
							for op in &ops {
								for full in [false, true] {
									if full && sc.is_none() {
										continue;
									}
									i += 1;
									if i % nshards != shard {
										continue;
									}
									let fam = if i % 2 == 0 { Fam::Uri } else { Fam::Iri };
									if !f(Case { fam, full, initial: initial.clone(), op: op.clone(), before: vec![] }, true) {
										return vec![];
									}
								}
							}
						}
					}
				}
			}
		}
		vec!["scheme length and offset of the first ':' in the first segment: every length 0..=1100 and the usual limits up to 70 000, through 8 setter calls", "every ordered pair of 120 related setter calls (6 contexts x 12 paths that are each other's suffixes / shielded forms + 8 other setters) made back to back on two buffers", "tail after the edited component of every length 0..=25 000 (thorough 70 000), and the lengths around 4 KiB .. 64 KiB block sizes through every setter", "huge values (1 MiB+3, 2 MiB; thorough: 64 KiB+1 .. 8 MiB+1): small<->huge and huge<->huge replacement through every setter", "2 schemes x 4 authorities x 10 path forms x 3 queries x 3 fragments x 29 setter calls x {reference, full}"]
	}

	fn floors(_tier: Tier) -> Vec<(&'static str, u64)> {
		vec![
			("judged", 150_000),
			("disamb:/.//", 1_000),
			("disamb:./colon", 1_000),
			("disamb:leading-slash", 5_000),
			("later-delimiter", 10_000),
			("length-change-long-tail", 10_000),
			("set_scheme(None)", 3_000),
			("set_authority(None)", 5_000),
			("set_query(None)", 5_000),
			("set_fragment(None)", 5_000),
		]
	}
}
