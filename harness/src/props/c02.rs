//! C02 — component accessors return the RFC 3986 Appendix-B decomposition.

use proptest::prelude::*;
use serde::{Deserialize, Serialize};

use crate::engine::{Ctx, Failure, Prop, Tier};
use crate::gen::{self, Fam, Opt};
use crate::oracle::abnf::{self, Ty};
use crate::oracle::split::{recompose, split, Parts};
use crate::{both_families, by_fam, ensure};

#[derive(Debug, Clone, Hash, Serialize, Deserialize)]
pub struct Case {
	pub fam: Fam,
	pub text: String,
}

pub struct C02;

fn tys(f: Fam) -> [Ty; 5] {
	match f {
		Fam::Uri => [Ty::UScheme, Ty::UAuthority, Ty::UPath, Ty::UQuery, Ty::UFragment],
		Fam::Iri => [Ty::UScheme, Ty::IAuthority, Ty::IPath, Ty::IQuery, Ty::IFragment],
	}
}

both_families! {
	use crate::props::api::opt_s;

	fn cmp(what: &str, view: &str, got: &Parts, exp: &Parts) -> Result<(), Failure> {
		ensure!(got.scheme == exp.scheme, format!("scheme:{what}"), "{view}: {what} scheme = {:?}, Appendix B gives {:?}", got.scheme, exp.scheme);
		ensure!(got.authority == exp.authority, format!("authority:{what}"), "{view}: {what} authority = {:?}, Appendix B gives {:?}", got.authority, exp.authority);
		ensure!(got.path == exp.path, format!("path:{what}"), "{view}: {what} path = {:?}, Appendix B gives {:?}", got.path, exp.path);
		ensure!(got.query == exp.query, format!("query:{what}"), "{view}: {what} query = {:?}, Appendix B gives {:?}", got.query, exp.query);
		ensure!(got.fragment == exp.fragment, format!("fragment:{what}"), "{view}: {what} fragment = {:?}, Appendix B gives {:?}", got.fragment, exp.fragment);
		Ok(())
	}

	fn revalidate(view: &str, p: &Parts) -> Result<(), Failure> {
		if let Some(s) = &p.scheme {
			ensure!(Scheme::new(s.as_str()).is_ok(), "component-invalid:scheme", "{view}: returned scheme {:?} is not a valid Scheme", s);
		}
		if let Some(a) = &p.authority {
			ensure!(Authority::new(a.as_str()).is_ok(), "component-invalid:authority", "{view}: returned authority {:?} is not a valid Authority", a);
		}
		ensure!(Path::new(p.path.as_str()).is_ok(), "component-invalid:path", "{view}: returned path {:?} is not a valid Path", p.path);
		if let Some(q) = &p.query {
			ensure!(Query::new(q.as_str()).is_ok(), "component-invalid:query", "{view}: returned query {:?} is not a valid Query", q);
		}
		if let Some(f) = &p.fragment {
			ensure!(Fragment::new(f.as_str()).is_ok(), "component-invalid:fragment", "{view}: returned fragment {:?} is not a valid Fragment", f);
		}
		Ok(())
	}

	pub fn check(text: &str, exp: &Parts, cx: &mut Ctx) -> Result<bool, Failure> {
		let r = match RiRef::new(text) {
			Ok(r) => r,
			Err(_) => return Ok(false),
		};
		// borrowed reference: individual accessors
		let ind = Parts {
			scheme: opt_s(r.scheme()),
			authority: opt_s(r.authority()),
			path: r.path().as_str().to_string(),
			query: opt_s(r.query()),
			fragment: opt_s(r.fragment()),
		};
		cmp("accessor", "borrowed reference", &ind, exp)?;
		let pp = r.parts();
		let all = Parts {
			scheme: opt_s(pp.scheme),
			authority: opt_s(pp.authority),
			path: pp.path.as_str().to_string(),
			query: opt_s(pp.query),
			fragment: opt_s(pp.fragment),
		};
		cmp("parts()", "borrowed reference", &all, exp)?;
		revalidate("borrowed reference", &ind)?;
		ensure!(recompose(&ind) == text, "recompose", "section 5.3 recomposition of the accessors gives {:?}, input is {:?}", recompose(&ind), text);
		cx.obs(12);
		// owned reference
		let ob = RiRefBuf::new(text.into()).map_err(|_| Failure::new("owned-rejects", format!("owned reference constructor rejects {:?} accepted by the borrowed one", text)))?;
		let ind_o = Parts {
			scheme: opt_s(ob.scheme()),
			authority: opt_s(ob.authority()),
			path: ob.path().as_str().to_string(),
			query: opt_s(ob.query()),
			fragment: opt_s(ob.fragment()),
		};
		cmp("accessor", "owned reference", &ind_o, exp)?;
		let pp = ob.parts();
		let all_o = Parts {
			scheme: opt_s(pp.scheme),
			authority: opt_s(pp.authority),
			path: pp.path.as_str().to_string(),
			query: opt_s(pp.query),
			fragment: opt_s(pp.fragment),
		};
		cmp("parts()", "owned reference", &all_o, exp)?;
		cx.obs(10);
		// full URI / IRI
		match Ri::new(text) {
			Ok(ri) => {
				ensure!(exp.scheme.is_some(), "full-without-scheme", "{:?} accepted as a full URI/IRI but Appendix B finds no scheme", text);
				let ind = Parts {
					scheme: Some(ri.scheme().as_str().to_string()),
					authority: opt_s(ri.authority()),
					path: ri.path().as_str().to_string(),
					query: opt_s(ri.query()),
					fragment: opt_s(ri.fragment()),
				};
				cmp("accessor", "borrowed full", &ind, exp)?;
				let pp = ri.parts();
				let all = Parts {
					scheme: Some(pp.scheme.as_str().to_string()),
					authority: opt_s(pp.authority),
					path: pp.path.as_str().to_string(),
					query: opt_s(pp.query),
					fragment: opt_s(pp.fragment),
				};
				cmp("parts()", "borrowed full", &all, exp)?;
				let ob = RiBuf::new(text.into()).map_err(|_| Failure::new("owned-rejects", format!("owned constructor rejects {:?} accepted by the borrowed one", text)))?;
				let ind = Parts {
					scheme: Some(ob.scheme().as_str().to_string()),
					authority: opt_s(ob.authority()),
					path: ob.path().as_str().to_string(),
					query: opt_s(ob.query()),
					fragment: opt_s(ob.fragment()),
				};
				cmp("accessor", "owned full", &ind, exp)?;
				let pp = ob.parts();
				let all = Parts {
					scheme: Some(pp.scheme.as_str().to_string()),
					authority: opt_s(pp.authority),
					path: pp.path.as_str().to_string(),
					query: opt_s(pp.query),
					fragment: opt_s(pp.fragment),
				};
				cmp("parts()", "owned full", &all, exp)?;
				cx.obs(20);
				cx.class("full");
			}
			Err(_) => {
				ensure!(exp.scheme.is_none(), "full-rejected", "{:?} is a valid reference with scheme {:?} but is rejected as a full URI/IRI", text, exp.scheme);
			}
		}
		Ok(true)
	}
}

impl Prop for C02 {
	type Case = Case;
	const ID: &'static str = "C02";

	fn rule() -> String {
		"cases = (family, text); texts from the structural reference generator G-REF (every presence/emptiness combination of the five components, all path forms, delimiters of earlier components inside later ones, IP-literals, non-ASCII for IRI) plus 1-3-edit mutants of such texts that the library still accepts. Oracle: RFC 3986 Appendix B splitter. Non-trivial: at least two components present, or a ':' '/' '?' '@' inside a later component, or non-ASCII text. Distinct = distinct (family,text).".into()
	}

	fn assumptions() -> Vec<String> {
		vec![
			"validity gate: only texts accepted by the library's checked constructor are judged (language equality is C01)".into(),
			"Appendix B splitter written in the harness from the RFC regular expression".into(),
		]
	}

	fn cases(tier: Tier) -> u64 {
		tier.pick(300_000, 6_000_000)
	}

	fn strategy(_tier: Tier) -> BoxedStrategy<Case> {
		let structural = (gen::fam(), any::<bool>()).prop_flat_map(|(f, full)| {
			gen::reference(Opt::new(f).with_nonutf8(true), full).prop_map(move |text| Case { fam: f, text })
		});
		let mutants = (gen::fam(), any::<bool>(), proptest::collection::vec(gen::edit(), 1..=3)).prop_flat_map(
			|(f, full, edits)| {
				gen::reference(Opt::new(f), full)
					.prop_map(move |text| Case { fam: f, text: gen::apply_edits(&text, &edits) })
			},
		);
		prop_oneof![85 => structural, 15 => mutants].boxed()
	}

	fn check(case: &Case, cx: &mut Ctx) -> Result<(), Failure> {
		if case.fam == Fam::Uri && !case.text.is_ascii() {
			cx.class("skipped-nonascii-uri");
			return Ok(());
		}
		let exp = split(&case.text);
		// also parse the same text borrowed from the MIDDLE of a larger buffer, at an odd offset:
		// heap strings are word-aligned, sub-slices are not (alignment-dependent scanners)
		{
			let k = 1 + case.text.len() % 7;
			let padded = format!("{}{}{}", &"~~~~~~~~"[..k], case.text, "~~~");
			let sub = &padded[k..k + case.text.len()];
			let mut scratch = Ctx::default();
			by_fam!(case.fam, check(sub, &exp, &mut scratch)).map_err(|f| Failure::new(format!("misaligned:{}", f.sig), format!("(input borrowed at byte offset {k} of a larger buffer) {}", f.msg)))?;
			cx.obs(scratch.observations);
		}
		// ... and in a re-used buffer: at the address where the previous text of this length was parsed
		{
			let mut scratch = Ctx::default();
			gen::with_arena(&case.text, |s| by_fam!(case.fam, check(s, &exp, &mut scratch))).map_err(|f| Failure::new(format!("reused-buffer:{}", f.sig), format!("(input in a buffer re-used from the previous text of the same length) {}", f.msg)))?;
			cx.obs(scratch.observations);
		}
		let judged = by_fam!(case.fam, check(&case.text, &exp, cx))?;
		if !judged {
			cx.class("rejected-by-library");
			return Ok(());
		}
		cx.class("judged");
		// the oracle's components must be in the component languages too
		let t = tys(case.fam);
		let ok = exp.scheme.as_deref().map(|s| abnf::accepts_str(t[0], s)).unwrap_or(true)
			&& exp.authority.as_deref().map(|s| abnf::accepts_str(t[1], s)).unwrap_or(true)
			&& abnf::accepts_str(t[2], &exp.path)
			&& exp.query.as_deref().map(|s| abnf::accepts_str(t[3], s)).unwrap_or(true)
			&& exp.fragment.as_deref().map(|s| abnf::accepts_str(t[4], s)).unwrap_or(true);
		ensure!(ok, "component-not-in-language", "a component of {:?} ({:?}) is not derivable from its RFC production", case.text, exp);
		let present = exp.scheme.is_some() as u32
			+ exp.authority.is_some() as u32
			+ (!exp.path.is_empty()) as u32
			+ exp.query.is_some() as u32
			+ exp.fragment.is_some() as u32;
		let delim_later = exp.path.contains(':')
			|| exp.path.contains('@')
			|| exp.query.as_deref().map(|q| q.contains(|c| matches!(c, ':' | '/' | '?' | '@'))).unwrap_or(false)
			|| exp.fragment.as_deref().map(|q| q.contains(|c| matches!(c, ':' | '/' | '?' | '@'))).unwrap_or(false)
			|| exp.authority.as_deref().map(|a| a.contains(':') || a.contains('@')).unwrap_or(false);
		cx.nt_if(present >= 2 || delim_later || !case.text.is_ascii());
		cx.class_if(exp.scheme.is_some(), "scheme");
		cx.class_if(exp.authority.is_some(), "authority");
		cx.class_if(exp.authority.as_deref() == Some(""), "authority-empty");
		cx.class_if(exp.query.is_some(), "query");
		cx.class_if(exp.query.as_deref() == Some(""), "query-empty");
		cx.class_if(exp.fragment.is_some(), "fragment");
		cx.class_if(exp.fragment.as_deref() == Some(""), "fragment-empty");
		cx.class_if(exp.path.is_empty(), "path-empty");
		cx.class_if(exp.path.contains(':'), "colon-in-path");
		cx.class_if(exp.path.contains("//"), "double-slash-in-path");
		cx.class_if(exp.query.as_deref().map(|q| q.contains(|c| matches!(c, ':' | '/' | '?'))).unwrap_or(false), "delims-in-query");
		cx.class_if(exp.fragment.as_deref().map(|q| q.contains('?')).unwrap_or(false), "qmark-in-fragment");
		cx.class_if(exp.authority.as_deref().map(|a| a.contains('[')).unwrap_or(false), "ip-literal");
		cx.class_if(!case.text.is_ascii(), "non-ascii");
		Ok(())
	}

	fn enumerate(_tier: Tier, shard: usize, nshards: usize, f: &mut dyn FnMut(Case, bool) -> bool) -> Vec<&'static str> {
		// every Unicode scalar value the IRI grammar allows, in every component slot at once
		for c in 0xA0u32..0x110000 {
			if c as usize % nshards != shard {
				continue;
			}
			let ch = match char::from_u32(c) {
				Some(ch) => ch,
				None => continue,
			};
			let text = if abnf::is_ucschar(c) {
				format!("s://u{ch}@h{ch}/p{ch}/{ch}?q{ch}#f{ch}")
			} else if abnf::is_iprivate(c) {
				format!("//h/p?{ch}q{ch}#f")
			} else {
				continue;
			};
			if !f(Case { fam: Fam::Iri, text }, false) {
				return vec![];
			}
		}
		// every LENGTH 0..=1100 of every component (length-dependent special cases are not only at powers of two),
		// then every 97th length up to 70 000
		let lens: Vec<usize> = gen::sweep_lengths(2200, 70_000);
		for (i, n) in lens.iter().enumerate() {
			if i % nshards != shard {
				continue;
			}
			let x = gen::filler(*n);
			// the components that are NOT being stretched are delimiter-rich (a second '?', '/', ':' and '@' where allowed)
			let sch = if *n == 0 { "s".to_string() } else { format!("s{}", &x[1..]) };
			for (k, text) in [
				format!("s://u@h/p?q?r/s:@#{x}"), format!("s://u@h/p?{x}#f?g/h:@"), format!("s://u:v@h:1/{x}?q?r#f?g"), format!("s://{x}@h/p?q#f"), format!("s://u@{x}:1/p?q#f"), format!("{x}/p:q?q?r#f"),
				format!("//h/a/{x}/b?{x}#{x}"), format!("{sch}://u@h:1/p?q?r#f?g"), format!("{sch}:p?q#f"), format!("s://h/{x}?a=1?b=2"), format!("s://h?{x}?a=1?b=2#f#"), format!("s://u@h:{d}/p?q", d = gen::digits(*n)), format!("s://h/{x}#f?g=1"), format!("s://h/{x}#{x}?x=1"),
				// shapes that scheme-aware or browser-aware code likes to special-case
				format!("data:text/plain;base64,QUJD{x}%3D-_.~?q#f"), format!("data:;base64,{x}.{x}#f"), format!("mailto:{x}@example.org?subject={x}"), format!("https://h/p#intro:~:text={x}"), format!("https://h/p?q#{x}:~:text=a,b"), format!("file:///C:/{x}/..#!/{x}"), format!("javascript:{x}//?#"), format!("urn:isbn:{x}?+r?=q#f"), format!("s:{x}#?{x}"), format!("//h{p}#{x}?", p = if *n == 0 { String::new() } else { format!("/{}", &x[1..]) }),
			].into_iter().enumerate() {
				let text = if text.ends_with("#f#") { text[..text.len() - 1].to_string() } else { text };
				let fam = if (i + k) % 2 == 0 { Fam::Uri } else { Fam::Iri };
				if !f(Case { fam, text }, false) {
					return vec![];
				}
			}
		}
		vec!["every ucschar / iprivate scalar value in every component slot it is allowed in (IRI family)", "every component length 0..=2200, every 97th up to 70 000 and +-2 around powers of two / 1000s / 2083 / 8190 / 10 240 k / 65 535, for fragment, query, path, user info, host, port, first segment and scheme, the other components being delimiter-rich"]
	}

	fn floors(_tier: Tier) -> Vec<(&'static str, u64)> {
		vec![
			("judged", 100_000),
			("full", 30_000),
			("authority-empty", 200),
			("query-empty", 500),
			("fragment-empty", 500),
			("colon-in-path", 5_000),
			("delims-in-query", 2_000),
			("qmark-in-fragment", 500),
			("ip-literal", 2_000),
			("non-ascii", 5_000),
		]
	}
}
