//! Shared by C07 / C08 / C13: generator of comparable values (pairs and triples
//! around metamorphic variants) and the reference equivalence per kind.

use proptest::collection::vec;
use proptest::prelude::*;
use proptest::sample::select;
use serde::{Deserialize, Serialize};

use crate::gen::{self, Fam, Opt};
use crate::oracle::pct;
use crate::oracle::split::{recompose, segs, split, split_authority};

#[derive(Debug, Clone, Copy, Hash, PartialEq, Eq, Serialize, Deserialize)]
pub enum Kind {
	Reference,
	Full,
	Authority,
	Path,
	Segment,
	Host,
	UserInfo,
	Query,
	Fragment,
	Scheme,
	Port,
}

pub const KINDS: [Kind; 11] = [
	Kind::Reference,
	Kind::Full,
	Kind::Authority,
	Kind::Path,
	Kind::Segment,
	Kind::Host,
	Kind::UserInfo,
	Kind::Query,
	Kind::Fragment,
	Kind::Scheme,
	Kind::Port,
];

impl Kind {
	pub fn label(self) -> &'static str {
		match self {
			Kind::Reference => "kind:reference",
			Kind::Full => "kind:full",
			Kind::Authority => "kind:authority",
			Kind::Path => "kind:path",
			Kind::Segment => "kind:segment",
			Kind::Host => "kind:host",
			Kind::UserInfo => "kind:userinfo",
			Kind::Query => "kind:query",
			Kind::Fragment => "kind:fragment",
			Kind::Scheme => "kind:scheme",
			Kind::Port => "kind:port",
		}
	}
}

#[derive(Debug, Clone, Hash, Serialize, Deserialize)]
pub struct Triple {
	pub fam: Fam,
	pub kind: Kind,
	pub a: String,
	pub b: String,
	pub c: String,
}

/// The documented equivalence, per kind.
pub fn equiv(kind: Kind, a: &str, b: &str) -> bool {
	match kind {
		Kind::Reference | Kind::Full => pct::equiv_ref(a, b),
		Kind::Authority => pct::equiv_authority(a, b),
		Kind::Path => pct::equiv_path(a, b),
		Kind::Segment | Kind::Host | Kind::UserInfo | Kind::Query | Kind::Fragment => pct::eq_dec(a, b),
		Kind::Scheme | Kind::Port => a == b,
	}
}

/// Every percent-decodable component of the value decodes to well-formed UTF-8.
pub fn all_utf8(kind: Kind, s: &str) -> bool {
	match kind {
		Kind::Reference | Kind::Full => pct::ref_all_utf8(s),
		Kind::Authority => {
			let ap = split_authority(s);
			ap.userinfo.as_deref().map(pct::decodes_to_utf8).unwrap_or(true) && pct::decodes_to_utf8(&ap.host)
		}
		Kind::Path => segs(s).1.iter().all(|x| pct::decodes_to_utf8(x)),
		Kind::Scheme | Kind::Port => true,
		_ => pct::decodes_to_utf8(s),
	}
}

/// Simple variants for a single pct-decodable token.
fn token_variant(s: &str, v: &gen::Variant) -> String {
	// reuse the reference machinery by wrapping the token as a query
	let p = crate::oracle::split::Parts { scheme: None, authority: None, path: String::new(), query: Some(s.to_string()), fragment: None };
	let q = match v {
		gen::Variant::Encode(k, up) => gen::apply_variant(&p, &gen::Variant::Encode(k - k % 5 + 1, *up)),
		gen::Variant::DecodeUnreserved(_) | gen::Variant::HexCase(_) => gen::apply_variant(&p, v),
		_ => p.clone(),
	};
	q.query.unwrap_or_default()
}

fn component(o: Opt, kind: Kind) -> BoxedStrategy<String> {
	match kind {
		Kind::Authority => gen::authority(o),
		Kind::Path => prop_oneof![1 => gen::path(o), 2 => (any::<bool>(), gen::dotty_segments(o)).prop_map(|(a, s)| gen::path_text(a, &s))].boxed(),
		Kind::Segment => gen::segment(o),
		Kind::Host => gen::host(o),
		Kind::UserInfo => gen::userinfo(o),
		Kind::Query => gen::query(o),
		Kind::Fragment => gen::fragment(o),
		Kind::Scheme => gen::scheme(),
		Kind::Port => gen::port(),
		_ => unreachable!(),
	}
}

fn vary(kind: Kind, s: &str, vs: &[gen::Variant]) -> String {
	let mut cur = s.to_string();
	for v in vs {
		cur = match kind {
			Kind::Reference | Kind::Full => recompose(&gen::apply_variant(&split(&cur), v)),
			Kind::Authority => {
				let p = crate::oracle::split::Parts { scheme: None, authority: Some(cur.clone()), path: String::new(), query: None, fragment: None };
				gen::apply_variant(&p, v).authority.unwrap_or_default()
			}
			Kind::Path => {
				// wrap as "s:" + path so that no shield is added for colon segments
				let p = crate::oracle::split::Parts { scheme: Some("s".into()), authority: None, path: cur.clone(), query: None, fragment: None };
				let q = gen::apply_variant(&p, v);
				q.path
			}
			Kind::Scheme => match v {
				gen::Variant::SchemeCase => cur.chars().map(|c| if c.is_ascii_lowercase() { c.to_ascii_uppercase() } else { c.to_ascii_lowercase() }).collect(),
				_ => cur.clone(),
			},
			Kind::Port => match v {
				gen::Variant::PortLeadingZero => format!("0{cur}"),
				_ => cur.clone(),
			},
			Kind::Host if matches!(v, gen::Variant::HostCase) => cur.chars().map(|c| if c.is_ascii_lowercase() { c.to_ascii_uppercase() } else { c.to_ascii_lowercase() }).collect(),
			_ => token_variant(&cur, v),
		};
	}
	cur
}

/// Public wrapper around `vary`.
pub fn vary_pub(kind: Kind, s: &str, vs: &[gen::Variant]) -> String {
	vary(kind, s, vs)
}

/// Triples (a, b, c): b and c are chains of variants of a (70 %), or
/// independent values of the same kind (30 %).
pub fn triple(nonutf8: bool) -> BoxedStrategy<Triple> {
	(gen::fam(), select(KINDS.to_vec()), any::<bool>())
		.prop_flat_map(move |(f, kind, nu)| {
			let o = Opt::new(f).with_nonutf8(nonutf8 && nu);
			let base: BoxedStrategy<String> = match kind {
				Kind::Reference => gen::ref_parts_with(o, false, prop_oneof![1 => gen::segments(o), 1 => gen::dotty_segments(o)].boxed(), 6, 5).prop_map(|p| recompose(&p)).boxed(),
				Kind::Full => prop_oneof![
					8 => gen::ref_parts_with(o, true, prop_oneof![1 => gen::segments(o), 1 => gen::dotty_segments(o)].boxed(), 10, 5).prop_map(|p| recompose(&p)),
					1 => select(vec!["data:,", "data:text/plain,hello", "data:a/b,x", "data:a/./b,x", "data:;base64,QQ==", "data:a/b;base64,QQ==", "data:text/html#f,x", "data:a/b,%41", "data:a/b,A", "data:a/c/../b,x"]).prop_map(|s| s.to_string()),
				].boxed(),
				k => component(o, k),
			};
			let related = (base.clone(), vec(gen::variant(), 0..=3), vec(gen::variant(), 0..=3)).prop_map(move |(a, v1, v2)| {
				let b = vary(kind, &a, &v1);
				let c = vary(kind, &b, &v2);
				Triple { fam: f, kind, a, b, c }
			});
			let independent = (base.clone(), base.clone(), base).prop_map(move |(a, b, c)| Triple { fam: f, kind, a, b, c });
			prop_oneof![7 => related, 3 => independent]
		})
		.boxed()
}

/// Edit distance <= 2 (cheap check used for the "near miss" class).
pub fn near(a: &str, b: &str) -> bool {
	let a: Vec<char> = a.chars().collect();
	let b: Vec<char> = b.chars().collect();
	if a.len().abs_diff(b.len()) > 2 {
		return false;
	}
	// edit distance <= 2, computed on the band |i - j| <= 2 only: row i holds d(i, j) for j = i - 2 ..= i + 2
	const BIG: usize = usize::MAX / 4;
	let (n, m) = (a.len() as isize, b.len() as isize);
	let mut prev = [BIG; 5];
	for k in 0..5isize {
		let j = k - 2;
		if j >= 0 && j <= m {
			prev[k as usize] = j as usize;
		}
	}
	for i in 1..=n {
		let mut cur = [BIG; 5];
		for k in 0..5isize {
			let j = i + k - 2;
			if j < 0 || j > m {
				continue;
			}
			if j == 0 {
				cur[k as usize] = i as usize;
				continue;
			}
			let cost = if a[(i - 1) as usize] == b[(j - 1) as usize] { 0 } else { 1 };
			// d(i-1, j) is prev[k+1]; d(i, j-1) is cur[k-1]; d(i-1, j-1) is prev[k]
			let up = if k + 1 < 5 { prev[(k + 1) as usize] } else { BIG };
			let left = if k >= 1 { cur[(k - 1) as usize] } else { BIG };
			let diag = prev[k as usize];
			cur[k as usize] = (up.saturating_add(1)).min(left.saturating_add(1)).min(diag.saturating_add(cost));
		}
		prev = cur;
	}
	let k = m - n + 2;
	(0..5).contains(&k) && prev[k as usize] <= 2
}


/// Long values (every length 1..=300) that are equal once decoded, or differ in exactly their last
/// character, for every comparable kind that can hold an escape; for lengths 100 and 290 the
/// difference at every position. (Comparison code with a bounded scratch buffer, a block loop or
/// a length-dependent fast path.)
pub fn long_near_misses(shard: usize, nshards: usize, f: &mut dyn FnMut(Triple, bool) -> bool) -> Vec<&'static str> {
	let mut i = 0usize;
	let mut emit = |a: &str, b: &str, c: &str, f: &mut dyn FnMut(Triple, bool) -> bool| -> bool {
		let shapes: [(Kind, fn(&str) -> String); 8] = [
			(Kind::Segment, |x| x.to_string()),
			(Kind::Path, |x| format!("/p/{x}/q")),
			(Kind::Query, |x| x.to_string()),
			(Kind::Fragment, |x| x.to_string()),
			(Kind::Host, |x| x.to_string()),
			(Kind::UserInfo, |x| x.to_string()),
			(Kind::Reference, |x| format!("//u@{x}:1/{x}?{x}#{x}")),
			(Kind::Full, |x| format!("s:/{x}")),
		];
		for (kind, shape) in shapes {
			i += 1;
			if i % nshards != shard {
				continue;
			}
			let fam = if i % 2 == 0 { Fam::Uri } else { Fam::Iri };
			if !f(Triple { fam, kind, a: shape(a), b: shape(b), c: shape(c) }, true) {
				return false;
			}
		}
		true
	};
	let mut lens: Vec<usize> = (1..=300usize).collect();
	lens.extend([1000, 2047, 2048, 2049, 4090, 4093, 4094, 4095, 4096, 4097, 4098, 8191, 8192, 8193, 16_384, 65_535, 65_536, 65_537]);
	for len in lens {
		let plain = format!("A{}", "a".repeat(len));
		let enc = format!("%41{}", "a".repeat(len));
		let mut last = enc.clone();
		last.pop();
		last.push('b');
		let enc_last = format!("%41{}%61", "a".repeat(len - 1));
		let more_enc = format!("{plain}%62");
		let more_nul = format!("{plain}%00");
		let more_lit = format!("{plain}b");
		if !emit(&enc, &plain, &last, f) || !emit(&plain, &enc_last, &enc, f) || !emit(&plain, &more_enc, &more_lit, f) || !emit(&more_nul, &plain, &enc, f) {
			return vec![];
		}
	}
	for len in [100usize, 290] {
		let enc = format!("%41{}", "a".repeat(len));
		let plain = format!("A{}", "a".repeat(len));
		for j in 0..len {
			let mut other: Vec<u8> = enc.clone().into_bytes();
			other[3 + j] = b'b';
			let other = String::from_utf8(other).unwrap();
			if !emit(&enc, &other, &plain, f) {
				return vec![];
			}
		}
	}
	// every triple of ports from a pool whose numeric, textual and length orders disagree, as port, authority and
	// reference (an order must be transitive whatever it is based on)
	let mut j = 0usize;
	let ports = ["", "0", "7", "10", "80", "080", "443", "8080", "65535", "65536", "99999", "100000", "18446744073709551616"];
	for a in ports {
		for b in ports {
			for c in ports {
				for (kind, shape) in [(Kind::Port, 0u8), (Kind::Authority, 1), (Kind::Reference, 2), (Kind::Full, 3)] {
					j += 1;
					if j % nshards != shard {
						continue;
					}
					let mk = |p: &str| match shape {
						0 => p.to_string(),
						1 => format!("u@h:{p}"),
						2 => format!("//h:{p}/x"),
						_ => format!("s://h:{p}"),
					};
					let fam = if j % 2 == 0 { Fam::Uri } else { Fam::Iri };
					if !f(Triple { fam, kind, a: mk(a), b: mk(b), c: mk(c) }, true) {
						return vec![];
					}
				}
			}
		}
	}
	vec!["every triple of 13 ports (numeric, textual and length order disagree) as port, authority, reference and full value", "long values (every length 1..=300 and around 2 KiB / 4 KiB / 8 KiB / 16 KiB / 64 KiB) equal once decoded or differing only in the last character, as segment, path, query, fragment, host, user info, reference and full value; for lengths 100 and 290 the difference at every position"]
}


#[cfg(test)]
mod near_tests {
	fn plain(a: &str, b: &str) -> bool {
		let a: Vec<char> = a.chars().collect();
		let b: Vec<char> = b.chars().collect();
		let mut prev: Vec<usize> = (0..=b.len()).collect();
		for i in 1..=a.len() {
			let mut cur = vec![i; b.len() + 1];
			for j in 1..=b.len() {
				let cost = if a[i - 1] == b[j - 1] { 0 } else { 1 };
				cur[j] = (prev[j] + 1).min(cur[j - 1] + 1).min(prev[j - 1] + cost);
			}
			prev = cur;
		}
		prev[b.len()] <= 2
	}
	#[test]
	fn banded_equals_plain() {
		let alphabet = ['a', 'b', '/'];
		let mut all = vec![String::new()];
		for len in 1..=5 {
			for m0 in 0..3usize.pow(len) {
				let mut m = m0;
				let mut s = String::new();
				for _ in 0..len {
					s.push(alphabet[m % 3]);
					m /= 3;
				}
				all.push(s);
			}
		}
		for x in &all {
			for y in &all {
				assert_eq!(super::near(x, y), plain(x, y), "{x:?} {y:?}");
			}
		}
	}
}
