use iref_verif::engine::{self, Tier};

fn usage() -> ! {
	eprintln!("usage: iref-verif run <Cxx> <quick|thorough> | replay <file> [--strict] | selfcheck");
	std::process::exit(2)
}

fn main() {
	let args: Vec<String> = std::env::args().collect();
	if args.len() < 2 {
		usage()
	}
	match args[1].as_str() {
		"run" => {
			if args.len() < 4 {
				usage()
			}
			// the command line names the tier; VERIF_TIER is only a fallback
			let tier = match args[3].as_str() {
				"quick" => Tier::Quick,
				"thorough" => Tier::Thorough,
				_ => match std::env::var("VERIF_TIER").ok().as_deref() {
					Some("thorough") => Tier::Thorough,
					Some("quick") | None => Tier::Quick,
					_ => usage(),
				},
			};
			let seed = engine::seed_from_env();
			match iref_verif::run(&args[2], tier, seed) {
				Some(code) => std::process::exit(code),
				None => {
					eprintln!("unknown property {}", args[2]);
					std::process::exit(2)
				}
			}
		}
		"explore-c15" => iref_verif::props::c15::explore(),
		"fuzz-seeds" => {
			// iref-verif fuzz-seeds <Cxx> <dir>: writes the seed corpus for the coverage-guided tier
			if args.len() < 4 {
				usage()
			}
			let dir = std::path::Path::new(&args[3]);
			let _ = std::fs::create_dir_all(dir);
			for (i, s) in iref_verif::fuzzdec::seeds(&args[2]).iter().enumerate() {
				let _ = std::fs::write(dir.join(format!("golden{i:02}")), s);
			}
		}
		"fuzz-replay" => {
			// iref-verif fuzz-replay <Cxx> <artifact>: judges one raw fuzz input outside the fuzzer
			if args.len() < 4 {
				usage()
			}
			let data = std::fs::read(&args[3]).unwrap_or_default();
			match iref_verif::fuzz_one(&args[2], &data) {
				Some(p) => {
					println!("VIOLATION property={} replay={}", args[2], p);
					std::process::exit(1)
				}
				None => println!("PASS"),
			}
		}
		"replay" => {
			if args.len() < 3 {
				usage()
			}
			let path = std::path::Path::new(&args[2]);
			let strict = args.iter().any(|a| a == "--strict");
			let text = std::fs::read_to_string(path).unwrap_or_else(|e| {
				eprintln!("cannot read {}: {e}", path.display());
				std::process::exit(2)
			});
			let v: serde_json::Value = serde_json::from_str(&text).unwrap_or_else(|e| {
				eprintln!("cannot parse {}: {e}", path.display());
				std::process::exit(2)
			});
			let id = v.get("property").and_then(|p| p.as_str()).unwrap_or("").to_string();
			match iref_verif::replay(&id, path, strict) {
				Some(code) => std::process::exit(code),
				None => {
					eprintln!("unknown property {id:?} in {}", path.display());
					std::process::exit(2)
				}
			}
		}
		_ => usage(),
	}
}
