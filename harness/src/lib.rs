pub mod alloc;
pub mod c17;
pub mod engine;
pub mod gen;
pub mod oracle;
pub mod props;

use engine::{Prop, Tier};

macro_rules! dispatch {
	($id:expr, $f:ident $(, $arg:expr)*) => {
		match $id {
			"C01" => Some($f::<props::c01::C01>($($arg),*)),
			"C02" => Some($f::<props::c02::C02>($($arg),*)),
			"C03" => Some($f::<props::c03::C03>($($arg),*)),
			"C04" => Some($f::<props::c04::C04>($($arg),*)),
			"C05" => Some($f::<props::c05::C05>($($arg),*)),
			"C06" => Some($f::<props::c06::C06>($($arg),*)),
			"C07" => Some($f::<props::c07::C07>($($arg),*)),
			"C08" => Some($f::<props::c08::C08>($($arg),*)),
			"C09" => Some($f::<props::c09::C09>($($arg),*)),
			"C10" => Some($f::<props::c10::C10>($($arg),*)),
			"C11" => Some($f::<props::c11::C11>($($arg),*)),
			"C12" => Some($f::<props::c12::C12>($($arg),*)),
			"C13" => Some($f::<props::c13::C13>($($arg),*)),
			"C14" => Some($f::<props::c14::C14>($($arg),*)),
			"C15" => Some($f::<props::c15::C15>($($arg),*)),
			"C16" => Some($f::<props::c16::C16>($($arg),*)),
			"C18" => Some($f::<props::c18::C18>($($arg),*)),
			"C19" => Some($f::<props::c19::C19>($($arg),*)),
			"C20" => Some($f::<props::c20::C20>($($arg),*)),
			_ => None,
		}
	};
}

fn run_p<P: Prop>(tier: Tier, seed: u64) -> i32 {
	engine::run::<P>(tier, seed)
}

fn replay_p<P: Prop>(path: &std::path::Path, strict: bool) -> i32 {
	engine::replay::<P>(path, strict)
}

pub fn run(id: &str, tier: Tier, seed: u64) -> Option<i32> {
	if id == "C17" {
		return Some(c17::run(tier, seed));
	}
	dispatch!(id, run_p, tier, seed)
}

pub fn replay(id: &str, path: &std::path::Path, strict: bool) -> Option<i32> {
	dispatch!(id, replay_p, path, strict)
}


// ---------------------------------------------------------------------------
// fuzzing entry (used by /verif/fuzz)
// ---------------------------------------------------------------------------

fn fuzz_p<P: Prop>(data: &[u8]) -> Option<String> {
	use std::cell::RefCell;
	use std::collections::HashSet;
	thread_local! {
		static STATE: RefCell<Option<(String, Box<dyn std::any::Any>, HashSet<String>)>> = RefCell::new(None);
	}
	engine::install_panic_hook();
	STATE.with(|st| {
		let mut st = st.borrow_mut();
		let fresh = match &*st {
			Some((id, _, _)) => id != P::ID,
			None => true,
		};
		if fresh {
			if let Err(e) = oracle::self_check().and_then(|_| P::self_check()) {
				eprintln!("harness self-check failed: {e}");
				std::process::exit(2);
			}
			let tier = if std::env::var("VERIF_TIER").ok().as_deref() == Some("quick") { Tier::Quick } else { Tier::Thorough };
			let strategy: proptest::strategy::BoxedStrategy<P::Case> = P::strategy(tier);
			*st = Some((P::ID.to_string(), Box::new(strategy), engine::known_sigs_for(P::ID)));
		}
		let (_, strat, known) = st.as_ref().unwrap();
		let strategy = strat.downcast_ref::<proptest::strategy::BoxedStrategy<P::Case>>().unwrap();
		engine::fuzz_one::<P>(strategy, data, known).map(|(case, f)| {
			eprintln!("fuzz failure: sig={} :: {}", f.sig, f.msg);
			engine::save_fuzz_failure::<P>(&case, &f).display().to_string()
		})
	})
}

/// Judges one fuzzer input for property `id`; returns the replay path of a failure.
pub fn fuzz_one(id: &str, data: &[u8]) -> Option<String> {
	dispatch!(id, fuzz_p, data).flatten()
}
