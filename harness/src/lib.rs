pub mod alloc;
pub mod c17;
pub mod engine;
pub mod fuzzdec;
pub mod gen;
pub mod oracle;
pub mod props;

use engine::{Prop, Tier};

macro_rules! dispatch {
	($id:expr, $f:ident $(, $arg:expr)*) => {
		match $id {
			"C01" => Some($f::<props::c01::C01>($($arg),*)),
			"C02" => Some($f::<props::c02::C02>($($arg),*)),
			"C03" => Some($f::<props::c03::C03>($($arg),*)),
			"C04" => Some($f::<props::c04::C04>($($arg),*)),
			"C05" => Some($f::<props::c05::C05>($($arg),*)),
			"C06" => Some($f::<props::c06::C06>($($arg),*)),
			"C07" => Some($f::<props::c07::C07>($($arg),*)),
			"C08" => Some($f::<props::c08::C08>($($arg),*)),
			"C09" => Some($f::<props::c09::C09>($($arg),*)),
			"C10" => Some($f::<props::c10::C10>($($arg),*)),
			"C11" => Some($f::<props::c11::C11>($($arg),*)),
			"C12" => Some($f::<props::c12::C12>($($arg),*)),
			"C13" => Some($f::<props::c13::C13>($($arg),*)),
			"C14" => Some($f::<props::c14::C14>($($arg),*)),
			"C15" => Some($f::<props::c15::C15>($($arg),*)),
			"C16" => Some($f::<props::c16::C16>($($arg),*)),
			"C18" => Some($f::<props::c18::C18>($($arg),*)),
			"C19" => Some($f::<props::c19::C19>($($arg),*)),
			"C20" => Some($f::<props::c20::C20>($($arg),*)),
			_ => None,
		}
	};
}

fn run_p<P: Prop>(tier: Tier, seed: u64) -> i32 {
	engine::run::<P>(tier, seed)
}

fn replay_p<P: Prop>(path: &std::path::Path, strict: bool) -> i32 {
	engine::replay::<P>(path, strict)
}

pub fn run(id: &str, tier: Tier, seed: u64) -> Option<i32> {
	if id == "C17" {
		return Some(c17::run(tier, seed));
	}
	dispatch!(id, run_p, tier, seed)
}

pub fn replay(id: &str, path: &std::path::Path, strict: bool) -> Option<i32> {
	if id == "C17" {
		return Some(c17::replay(path));
	}
	dispatch!(id, replay_p, path, strict)
}


// ---------------------------------------------------------------------------
// fuzzing entry (used by /verif/fuzz)
// ---------------------------------------------------------------------------

/// Judges one fuzzer input for property `id`; returns the replay path of a failure.
pub fn fuzz_one(id: &str, data: &[u8]) -> Option<String> {
	fuzzdec::run(id, data)
}
