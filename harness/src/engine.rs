//! Runner: proptest driver, sharding, counters, evidence, replay, known findings.

use std::cell::RefCell;
use std::collections::{BTreeMap, HashMap, HashSet};
use std::fmt::Debug;
use std::hash::{Hash, Hasher};
use std::panic::{catch_unwind, AssertUnwindSafe};
use std::path::{Path, PathBuf};
use std::sync::atomic::{AtomicBool, AtomicU64, Ordering};
use std::sync::{Arc, Mutex};
use std::time::{Duration, Instant};

use proptest::strategy::BoxedStrategy;
use proptest::test_runner::{
	Config, RngAlgorithm, RngSeed, TestCaseError, TestError, TestRng, TestRunner,
};
use serde::de::DeserializeOwned;
use serde::Serialize;

#[derive(Debug, Clone, Copy, PartialEq, Eq)]
pub enum Tier {
	Quick,
	Thorough,
}

impl Tier {
	pub fn name(self) -> &'static str {
		match self {
			Tier::Quick => "quick",
			Tier::Thorough => "thorough",
		}
	}
	pub fn pick<T>(self, q: T, t: T) -> T {
		match self {
			Tier::Quick => q,
			Tier::Thorough => t,
		}
	}
}

#[derive(Debug, Clone, Serialize, serde::Deserialize)]
pub struct Failure {
	/// Narrow signature: root-cause class + site; matched against known_findings.json.
	pub sig: String,
	/// Human-readable: expectation vs observation.
	pub msg: String,
}

impl Failure {
	pub fn new(sig: impl Into<String>, msg: impl Into<String>) -> Self {
		Failure { sig: sig.into(), msg: msg.into() }
	}
}

#[macro_export]
macro_rules! fail {
	($sig:expr, $($arg:tt)*) => {
		return Err($crate::engine::Failure::new($sig, format!($($arg)*)))
	};
}

#[macro_export]
macro_rules! ensure {
	($cond:expr, $sig:expr, $($arg:tt)*) => {
		if !($cond) {
			return Err($crate::engine::Failure::new($sig, format!($($arg)*)));
		}
	};
}

/// Per-case context filled by `check`.
#[derive(Default)]
pub struct Ctx {
	pub nontrivial: bool,
	pub classes: Vec<&'static str>,
	/// Number of sub-observations judged within this case.
	pub observations: u64,
	/// Known-finding signatures tolerated *inside* this case (the check went on).
	pub tolerated: Vec<String>,
}

impl Ctx {
	pub fn class(&mut self, c: &'static str) {
		self.classes.push(c)
	}
	pub fn class_if(&mut self, cond: bool, c: &'static str) {
		if cond {
			self.classes.push(c)
		}
	}
	pub fn nt(&mut self) {
		self.nontrivial = true
	}
	pub fn nt_if(&mut self, c: bool) {
		if c {
			self.nontrivial = true
		}
	}
	pub fn obs(&mut self, n: u64) {
		self.observations += n
	}
}

pub trait Prop: 'static {
	type Case: Clone + Debug + Hash + Serialize + DeserializeOwned + Send + 'static;
	const ID: &'static str;
	/// Evidence `rule` text.
	fn rule() -> String;
	fn assumptions() -> Vec<String> {
		vec![]
	}
	fn strategy(tier: Tier) -> BoxedStrategy<Self::Case>;
	/// Number of random cases (total over all shards).
	fn cases(tier: Tier) -> u64;
	fn check(case: &Self::Case, cx: &mut Ctx) -> Result<(), Failure>;
	/// Exhaustive sub-domains. Calls `f(case, hashed)` for every case of shard
	/// `shard` of `nshards`; `hashed = false` marks cases that are distinct by
	/// construction and of a shape the random strategy never produces (they are
	/// counted, not hashed). Returns names of the enumerations completed.
	fn enumerate(
		_tier: Tier,
		_shard: usize,
		_nshards: usize,
		_f: &mut dyn FnMut(Self::Case, bool) -> bool,
	) -> Vec<&'static str> {
		vec![]
	}
	/// Classes that must not be starved: (label, minimum count in quick).
	fn floors(_tier: Tier) -> Vec<(&'static str, u64)> {
		vec![]
	}
	/// Start-up self-checks of the oracles this property uses.
	fn self_check() -> Result<(), String> {
		Ok(())
	}
}

// --------------------------------------------------------------------------
// panic capture
// --------------------------------------------------------------------------

thread_local! {
	static LAST_PANIC: RefCell<Option<(String, String)>> = RefCell::new(None);
}

pub fn install_panic_hook() {
	static ONCE: std::sync::Once = std::sync::Once::new();
	ONCE.call_once(|| {
		std::panic::set_hook(Box::new(|info| {
			let loc = info
				.location()
				.map(|l| format!("{}:{}", short_path(l.file()), l.line()))
				.unwrap_or_else(|| "?".into());
			let msg = if let Some(s) = info.payload().downcast_ref::<&str>() {
				s.to_string()
			} else if let Some(s) = info.payload().downcast_ref::<String>() {
				s.clone()
			} else {
				"<non-string panic>".into()
			};
			LAST_PANIC.with(|p| *p.borrow_mut() = Some((loc, msg)));
		}));
	});
}

fn short_path(f: &str) -> String {
	// keep crate-relative tail
	if let Some(i) = f.find("/registry/src/") {
		let rest = &f[i + 14..];
		if let Some(j) = rest.find('/') {
			return rest[j + 1..].to_string();
		}
	}
	if let Some(i) = f.find("/repo/") {
		return f[i + 6..].to_string();
	}
	if let Some(i) = f.find("/library/") {
		return f[i + 1..].to_string();
	}
	f.to_string()
}

#[derive(Debug, Clone)]
pub struct PanicInfo {
	pub loc: String,
	pub msg: String,
}

/// Runs `f`, turning a panic into `Err(PanicInfo)`.
pub fn guard<T>(f: impl FnOnce() -> T) -> Result<T, PanicInfo> {
	LAST_PANIC.with(|p| *p.borrow_mut() = None);
	match catch_unwind(AssertUnwindSafe(f)) {
		Ok(v) => Ok(v),
		Err(_) => {
			let (loc, msg) = LAST_PANIC
				.with(|p| p.borrow_mut().take())
				.unwrap_or(("?".into(), "?".into()));
			Err(PanicInfo { loc, msg })
		}
	}
}

/// Like `guard` but maps the panic to a Failure with the given signature prefix.
pub fn guard_f<T>(what: &str, f: impl FnOnce() -> T) -> Result<T, Failure> {
	guard(f).map_err(|p| {
		Failure::new(
			format!("panic:{}", p.loc),
			format!("{what} panicked at {}: {}", p.loc, truncate(&p.msg, 200)),
		)
	})
}

static T0: std::sync::OnceLock<Instant> = std::sync::OnceLock::new();
static GRACE_UNTIL_MS: AtomicU64 = AtomicU64::new(0);

fn since_t0_ms() -> u64 {
	T0.get_or_init(Instant::now).elapsed().as_millis() as u64
}

/// A check that knowingly runs ONE very expensive case (an input beyond 4 GiB) asks the watchdog
/// for patience: stalls are not reported during the next `secs` seconds.
pub fn grace(secs: u64) {
	GRACE_UNTIL_MS.fetch_max(since_t0_ms() + secs * 1000, Ordering::SeqCst);
}

pub fn grace_end() {
	GRACE_UNTIL_MS.store(0, Ordering::SeqCst);
}

pub fn truncate(s: &str, n: usize) -> String {
	if s.len() <= n {
		s.to_string()
	} else {
		let mut e = n;
		while !s.is_char_boundary(e) {
			e -= 1
		}
		format!("{}…", &s[..e])
	}
}

// --------------------------------------------------------------------------
// known findings
// --------------------------------------------------------------------------

#[derive(Debug, Clone, serde::Deserialize)]
pub struct KnownFinding {
	pub property: String,
	pub id: String,
	pub sig: String,
	pub what: String,
	#[serde(default)]
	pub example_replay: Option<String>,
}

#[derive(Debug, Clone, Default, serde::Deserialize)]
pub struct KnownFile {
	#[serde(default)]
	pub findings: Vec<KnownFinding>,
	#[serde(default)]
	pub fixed: Vec<String>,
}

pub fn verif_root() -> PathBuf {
	std::env::var("VERIF_ROOT").map(PathBuf::from).unwrap_or_else(|_| PathBuf::from("/verif"))
}

pub fn load_known() -> KnownFile {
	let p = verif_root().join("known_findings.json");
	match std::fs::read_to_string(&p) {
		Ok(s) => match serde_json::from_str(&s) {
			Ok(k) => k,
			Err(e) => {
				eprintln!("harness error: cannot parse {}: {e}", p.display());
				std::process::exit(2)
			}
		},
		Err(_) => KnownFile::default(),
	}
}

thread_local! {
	/// Known signatures of the property being run, for in-case toleration.
	static KNOWN_SIGS: RefCell<Arc<HashSet<String>>> = RefCell::new(Arc::new(HashSet::new()));
	static STRICT: RefCell<bool> = RefCell::new(false);
}

/// Inside a check: if `sig` is a listed known finding for the running property,
/// record it as tolerated and return true (the check may continue with its
/// other observations); otherwise false (the caller should fail).
pub fn tolerated(cx: &mut Ctx, sig: &str) -> bool {
	let known = KNOWN_SIGS.with(|k| k.borrow().contains(sig));
	if known {
		cx.tolerated.push(sig.to_string());
	}
	known
}

/// Fails with the given failure unless its signature is a listed known finding,
/// in which case it is recorded and the check continues.
#[macro_export]
macro_rules! soft_fail {
	($cx:expr, $sig:expr, $($arg:tt)*) => {{
		let __sig: String = $sig.into();
		if !$crate::engine::tolerated($cx, &__sig) {
			return Err($crate::engine::Failure::new(__sig, format!($($arg)*)));
		}
	}};
}

// --------------------------------------------------------------------------
// statistics
// --------------------------------------------------------------------------

#[derive(Default)]
struct Stats {
	evaluations: u64,
	observations: u64,
	nontrivial_hashed: HashSet<u64>,
	nontrivial_counted: u64,
	classes: HashMap<&'static str, u64>,
	excluded_known: BTreeMap<String, u64>,
	samples: Vec<(u64, serde_json::Value)>,
	enumerated: u64,
	enumerations: Vec<&'static str>,
}

const SAMPLE_K: usize = 10;

impl Stats {
	fn merge(&mut self, o: Stats) {
		self.evaluations += o.evaluations;
		self.observations += o.observations;
		self.nontrivial_hashed.extend(o.nontrivial_hashed);
		self.nontrivial_counted += o.nontrivial_counted;
		for (k, v) in o.classes {
			*self.classes.entry(k).or_default() += v
		}
		for (k, v) in o.excluded_known {
			*self.excluded_known.entry(k).or_default() += v
		}
		self.samples.extend(o.samples);
		self.samples.sort_by_key(|x| x.0);
		self.samples.dedup_by_key(|x| x.0);
		self.samples.truncate(SAMPLE_K);
		self.enumerated += o.enumerated;
		for e in o.enumerations {
			if !self.enumerations.contains(&e) {
				self.enumerations.push(e)
			}
		}
	}
	fn sample<C: Serialize>(&mut self, h: u64, c: &C) {
		if self.samples.len() < SAMPLE_K || h < self.samples.last().unwrap().0 {
			if self.samples.iter().any(|x| x.0 == h) {
				return;
			}
			if let Ok(v) = serde_json::to_value(c) {
				self.samples.push((h, v));
				self.samples.sort_by_key(|x| x.0);
				self.samples.truncate(SAMPLE_K);
			}
		}
	}
}

fn hash_case<C: Hash>(c: &C) -> u64 {
	// fixed-key hasher: deterministic across runs
	let mut h = std::collections::hash_map::DefaultHasher::new();
	c.hash(&mut h);
	h.finish()
}

// --------------------------------------------------------------------------
// judging one case
// --------------------------------------------------------------------------

enum Verdict {
	Pass,
	Known(String),
	Fail(Failure),
}

fn judge<P: Prop>(case: &P::Case, cx: &mut Ctx, known: &HashSet<String>) -> Verdict {
	let r = guard(|| P::check(case, cx));
	let res = match r {
		Ok(r) => r,
		Err(p) => Err(Failure::new(
			format!("panic:{}", p.loc),
			format!("panic at {}: {}", p.loc, truncate(&p.msg, 300)),
		)),
	};
	match res {
		Ok(()) => Verdict::Pass,
		Err(f) => {
			if f.sig == "harness" {
				// an internal consistency check of the harness itself failed: never a verdict
				println!("INCONCLUSIVE property={} harness self-consistency failure (exit 2): {}", P::ID, f.msg);
				std::process::exit(2);
			}
			if known.contains(&f.sig) {
				Verdict::Known(f.sig)
			} else {
				Verdict::Fail(f)
			}
		}
	}
}

fn account<P: Prop>(st: &mut Stats, case: &P::Case, cx: &Ctx, hashed: bool) {
	st.evaluations += 1;
	st.observations += cx.observations.max(1);
	for c in &cx.classes {
		*st.classes.entry(c).or_default() += 1
	}
	for t in &cx.tolerated {
		*st.excluded_known.entry(t.clone()).or_default() += 1
	}
	if hashed {
		let h = hash_case(case);
		if cx.nontrivial {
			st.nontrivial_hashed.insert(h);
		}
		st.sample(h, case);
	} else {
		if cx.nontrivial {
			st.nontrivial_counted += 1;
			if st.nontrivial_counted % 4099 == 1 {
				let h = hash_case(case);
				st.sample(h, case);
			}
		}
	}
}

// --------------------------------------------------------------------------
// replay files
// --------------------------------------------------------------------------

#[derive(Serialize, serde::Deserialize)]
pub struct ReplayFile {
	pub property: String,
	pub case: serde_json::Value,
	#[serde(default)]
	pub failure: Option<Failure>,
	#[serde(default)]
	pub note: Option<String>,
}

fn write_replay<P: Prop>(case: &P::Case, f: &Failure, seed: u64, tag: &str) -> PathBuf {
	let dir = verif_root().join("replays");
	let _ = std::fs::create_dir_all(&dir);
	let h = hash_case(case);
	let path = dir.join(format!("{}-{}-{:016x}.json", P::ID, tag, h));
	let rf = ReplayFile {
		property: P::ID.to_string(),
		case: serde_json::to_value(case).unwrap_or(serde_json::Value::Null),
		failure: Some(f.clone()),
		note: Some(format!("seed={seed}")),
	};
	let _ = std::fs::write(&path, serde_json::to_string_pretty(&rf).unwrap());
	path
}

/// Replays one file. Returns process exit code.
pub fn replay<P: Prop>(path: &Path, strict: bool) -> i32 {
	install_panic_hook();
	let text = match std::fs::read_to_string(path) {
		Ok(t) => t,
		Err(e) => {
			eprintln!("cannot read {}: {e}", path.display());
			return 2;
		}
	};
	let rf: ReplayFile = match serde_json::from_str(&text) {
		Ok(r) => r,
		Err(e) => {
			eprintln!("cannot parse {}: {e}", path.display());
			return 2;
		}
	};
	let case: P::Case = match serde_json::from_value(rf.case) {
		Ok(c) => c,
		Err(e) => {
			eprintln!("cannot decode case in {}: {e}", path.display());
			return 2;
		}
	};
	let known_file = load_known();
	let known: HashSet<String> = if strict {
		HashSet::new()
	} else {
		known_file.findings.iter().filter(|k| k.property == P::ID).map(|k| k.sig.clone()).collect()
	};
	KNOWN_SIGS.with(|k| *k.borrow_mut() = Arc::new(known.clone()));
	let mut cx = Ctx::default();
	println!("replay {} case: {}", P::ID, serde_json::to_string(&case).unwrap_or_default());
	match judge::<P>(&case, &mut cx, &known) {
		Verdict::Pass => {
			for t in &cx.tolerated {
				println!("KNOWN-FINDING: property={} {}", P::ID, describe_known(&known_file, P::ID, t));
			}
			println!("PASS (classes: {:?})", cx.classes);
			0
		}
		Verdict::Known(sig) => {
			println!("KNOWN-FINDING: property={} {}", P::ID, describe_known(&known_file, P::ID, &sig));
			0
		}
		Verdict::Fail(f) => {
			println!("FAIL sig={} :: {}", f.sig, f.msg);
			println!("VIOLATION property={} replay={}", P::ID, path.display());
			1
		}
	}
}

fn describe_known(k: &KnownFile, prop: &str, sig: &str) -> String {
	k.findings
		.iter()
		.find(|x| x.property == prop && x.sig == sig)
		.map(|x| format!("id={} {}", x.id, x.what))
		.unwrap_or_else(|| format!("sig={sig}"))
}

// --------------------------------------------------------------------------
// main run
// --------------------------------------------------------------------------

pub fn nthreads() -> usize {
	std::env::var("VERIF_THREADS")
		.ok()
		.and_then(|s| s.parse().ok())
		.unwrap_or_else(|| std::thread::available_parallelism().map(|n| n.get()).unwrap_or(8).min(16))
}

pub fn seed_from_env() -> u64 {
	std::env::var("VERIF_SEED").ok().and_then(|s| s.trim().parse::<i64>().ok()).map(|v| v as u64).unwrap_or(0)
}

fn seed_bytes(seed: u64, shard: u64) -> [u8; 32] {
	// splitmix64 expansion
	let mut x = seed ^ shard.wrapping_mul(0x9E3779B97F4A7C15) ^ 0xD1B54A32D192ED03;
	let mut out = [0u8; 32];
	for i in 0..4 {
		x = x.wrapping_add(0x9E3779B97F4A7C15);
		let mut z = x;
		z = (z ^ (z >> 30)).wrapping_mul(0xBF58476D1CE4E5B9);
		z = (z ^ (z >> 27)).wrapping_mul(0x94D049BB133111EB);
		z ^= z >> 31;
		out[i * 8..i * 8 + 8].copy_from_slice(&z.to_le_bytes());
	}
	out
}

struct Shared<C> {
	stop: AtomicBool,
	violation: Mutex<Option<(C, Failure, &'static str)>>,
	/// simplest failing case seen so far while a shard is still shrinking
	best: Mutex<Option<(C, Failure)>>,
	shrinking: Vec<AtomicBool>,
	heartbeat: Vec<AtomicU64>,
	current: Vec<Mutex<Option<C>>>,
}

pub fn run<P: Prop>(tier: Tier, seed: u64) -> i32 {
	install_panic_hook();
	let t0 = Instant::now();
	if let Err(e) = crate::oracle::self_check().and_then(|_| P::self_check()) {
		eprintln!("harness self-check failed (exit 2): {e}");
		return 2;
	}
	let known_file = load_known();
	let known: Arc<HashSet<String>> = Arc::new(
		known_file.findings.iter().filter(|k| k.property == P::ID).map(|k| k.sig.clone()).collect(),
	);
	let nt = nthreads();
	let mut total = Stats::default();
	let mut violations: Vec<(PathBuf, Failure)> = Vec::new();

	// 1. regressions
	let regdir = verif_root().join("regressions");
	let mut regs: Vec<PathBuf> = std::fs::read_dir(&regdir)
		.map(|d| {
			d.filter_map(|e| e.ok())
				.map(|e| e.path())
				.filter(|p| {
					p.file_name()
						.and_then(|n| n.to_str())
						.map(|n| n.starts_with(&format!("{}-", P::ID)) && n.ends_with(".json"))
						.unwrap_or(false)
				})
				.collect()
		})
		.unwrap_or_default();
	regs.sort();
	let mut regressions_replayed = 0u64;
	KNOWN_SIGS.with(|k| *k.borrow_mut() = known.clone());
	for p in &regs {
		let text = std::fs::read_to_string(p).unwrap_or_default();
		let rf: ReplayFile = match serde_json::from_str(&text) {
			Ok(r) => r,
			Err(e) => {
				eprintln!("harness error: bad regression file {}: {e}", p.display());
				return 2;
			}
		};
		let case: P::Case = match serde_json::from_value(rf.case) {
			Ok(c) => c,
			Err(e) => {
				eprintln!("harness error: bad case in {}: {e}", p.display());
				return 2;
			}
		};
		let mut cx = Ctx::default();
		regressions_replayed += 1;
		match judge::<P>(&case, &mut cx, &known) {
			Verdict::Pass => account::<P>(&mut total, &case, &cx, true),
			Verdict::Known(sig) => {
				account::<P>(&mut total, &case, &cx, true);
				*total.excluded_known.entry(sig).or_default() += 1;
			}
			Verdict::Fail(f) => {
				println!("regression {} fails: sig={} :: {}", p.display(), f.sig, truncate(&f.msg, 20_000));
				violations.push((p.clone(), f));
			}
		}
	}

	// 2. enumerations + random, sharded
	let shared: Arc<Shared<P::Case>> = Arc::new(Shared {
		stop: AtomicBool::new(false),
		violation: Mutex::new(None),
		best: Mutex::new(None),
		shrinking: (0..nt).map(|_| AtomicBool::new(false)).collect(),
		heartbeat: (0..nt).map(|_| AtomicU64::new(0)).collect(),
		current: (0..nt).map(|_| Mutex::new(None)).collect(),
	});
	let cases_total = P::cases(tier);
	let done = Arc::new(AtomicBool::new(false));
	let hang_limit = Duration::from_secs(tier.pick(30, 120));

	let results: Vec<Stats> = std::thread::scope(|scope| {
		// watchdog
		{
			let shared = shared.clone();
			let done = done.clone();
			scope.spawn(move || {
				let start = Instant::now();
				loop {
					std::thread::sleep(Duration::from_millis(500));
					if done.load(Ordering::SeqCst) {
						break;
					}
					let now = start.elapsed().as_millis() as u64;
					for (i, hb) in shared.heartbeat.iter().enumerate() {
						let last = hb.load(Ordering::Relaxed);
						if since_t0_ms() < GRACE_UNTIL_MS.load(Ordering::SeqCst) {
							continue;
						}
						if last != 0 && last != u64::MAX && now.saturating_sub(last) > hang_limit.as_millis() as u64 {
							if shared.shrinking[i].load(Ordering::SeqCst) {
								// a failure is already in hand; shrinking is taking too long: report what we have
								if let Some((c, f)) = shared.best.lock().ok().and_then(|b| b.clone()) {
									let p = write_replay::<P>(&c, &f, seed, "unshrunk");
									println!("counterexample (shrinking abandoned): {}", truncate(&serde_json::to_string(&c).unwrap_or_default(), 20_000));
									println!("failure: sig={} :: {}", f.sig, truncate(&f.msg, 20_000));
									write_minimal_evidence::<P>(tier, seed, 1);
									println!("VIOLATION property={} replay={}", P::ID, p.display());
									std::process::exit(1);
								}
							}
							let cur = shared.current[i].lock().ok().and_then(|c| c.clone());
							let p = match &cur {
								Some(c) => write_replay::<P>(
									c,
									&Failure::new("hang", "case exceeded the watchdog limit"),
									seed,
									"hang",
								),
								None => PathBuf::from("?"),
							};
							println!(
								"INCONCLUSIVE property={} hang (> {:?}) case saved to {}",
								P::ID,
								hang_limit,
								p.display()
							);
							std::process::exit(2);
						}
					}
				}
			});
		}
		let clock = Instant::now();
		let handles: Vec<_> = (0..nt)
			.map(|shard| {
				let shared = shared.clone();
				let known = known.clone();
				scope.spawn(move || {
					KNOWN_SIGS.with(|k| *k.borrow_mut() = known.clone());
					let mut st = Stats::default();
					let beat = |shared: &Shared<P::Case>, c: &P::Case| {
						shared.heartbeat[shard]
							.store(clock.elapsed().as_millis() as u64 + 1, Ordering::Relaxed);
						if let Ok(mut g) = shared.current[shard].lock() {
							*g = Some(c.clone());
						}
					};
					// enumerations
					let mut count = 0u64;
					let names = P::enumerate(tier, shard, nt, &mut |case, hashed| {
						if shared.stop.load(Ordering::Relaxed) {
							return false;
						}
						if count % 64 == 0 {
							beat(&shared, &case);
						}
						count += 1;
						let mut cx = Ctx::default();
						match judge::<P>(&case, &mut cx, &known) {
							Verdict::Pass => {
								account::<P>(&mut st, &case, &cx, hashed);
								true
							}
							Verdict::Known(sig) => {
								account::<P>(&mut st, &case, &cx, hashed);
								*st.excluded_known.entry(sig).or_default() += 1;
								true
							}
							Verdict::Fail(f) => {
								let mut v = shared.violation.lock().unwrap();
								if v.is_none() {
									*v = Some((case, f, "enum"));
								}
								shared.stop.store(true, Ordering::SeqCst);
								false
							}
						}
					});
					st.enumerated = count;
					st.enumerations = names;
					// random
					let my_cases = cases_total / nt as u64
						+ if (shard as u64) < cases_total % nt as u64 { 1 } else { 0 };
					if my_cases > 0 && !shared.stop.load(Ordering::Relaxed) {
						let cfg = Config {
							cases: my_cases as u32,
							failure_persistence: None,
							max_shrink_iters: 2000,
							max_shrink_time: 20_000,
							max_global_rejects: 65536,
							rng_seed: RngSeed::Fixed(seed),
							..Config::default()
						};
						let rng = TestRng::from_seed(RngAlgorithm::ChaCha, &seed_bytes(seed, shard as u64));
						let mut runner = TestRunner::new_with_rng(cfg, rng);
						let strategy = P::strategy(tier);
						let failed = std::cell::Cell::new(false);
						let stc = RefCell::new(&mut st);
						let n = std::cell::Cell::new(0u64);
						let res = runner.run(&strategy, |case| {
							if shared.stop.load(Ordering::Relaxed) && !failed.get() {
								// another shard found a violation: finish quickly
								return Ok(());
							}
							beat(&shared, &case);
							n.set(n.get() + 1);
							let mut cx = Ctx::default();
							match judge::<P>(&case, &mut cx, &known) {
								Verdict::Pass => {
									if !failed.get() {
										account::<P>(&mut stc.borrow_mut(), &case, &cx, true);
									}
									Ok(())
								}
								Verdict::Known(sig) => {
									if !failed.get() {
										let mut s = stc.borrow_mut();
										account::<P>(&mut s, &case, &cx, true);
										*s.excluded_known.entry(sig).or_default() += 1;
									}
									Ok(())
								}
								Verdict::Fail(f) => {
									failed.set(true);
									shared.shrinking[shard].store(true, Ordering::SeqCst);
									if let Ok(mut b) = shared.best.lock() {
										*b = Some((case.clone(), f.clone()));
									}
									Err(TestCaseError::fail(f.sig))
								}
							}
						});
						if let Err(e) = res {
							match e {
								TestError::Fail(_, case) => {
									// re-judge the minimal case to get its message
									let mut cx = Ctx::default();
									let (case, f) = match judge::<P>(&case, &mut cx, &known) {
										Verdict::Fail(f) => (case, f),
										_ => {
											// the verdict depends on what ran before on this thread: report the last
											// case that was SEEN failing, with its own message
											match shared.best.lock().ok().and_then(|b| b.clone()) {
												Some((c, f)) => (c, Failure::new(f.sig.clone(), format!("{} [observed in sequence; the same case judged again on its own passes, so the outcome depends on calls made earlier on this thread - state carried between calls on different values]", f.msg))),
												None => (case, Failure::new("unstable", "minimal case no longer fails (flaky oracle?)")),
											}
										}
									};
									let mut v = shared.violation.lock().unwrap();
									if v.is_none() {
										*v = Some((case, f, "pt"));
									}
									shared.stop.store(true, Ordering::SeqCst);
								}
								TestError::Abort(r) => {
									eprintln!("harness error: proptest aborted: {r}");
									std::process::exit(2);
								}
							}
						}
					}
					shared.heartbeat[shard].store(u64::MAX, Ordering::Relaxed);
					st
				})
			})
			.collect();
		let r: Vec<Stats> = handles
			.into_iter()
			.map(|h| match h.join() {
				Ok(s) => s,
				Err(_) => {
					eprintln!("harness error: worker thread panicked outside a case");
					std::process::exit(2);
				}
			})
			.collect();
		done.store(true, Ordering::SeqCst);
		r
	});
	for s in results {
		total.merge(s)
	}
	if let Some((case, f, tag)) = shared.violation.lock().unwrap().take() {
		let p = write_replay::<P>(&case, &f, seed, tag);
		println!("counterexample: {}", truncate(&serde_json::to_string(&case).unwrap_or_default(), 20_000));
		println!("failure: sig={} :: {}", f.sig, truncate(&f.msg, 20_000));
		violations.push((p, f));
	}

	// 3. floors
	let mut starved = vec![];
	if violations.is_empty() {
		for (label, floor) in P::floors(tier) {
			let got = total.classes.get(label).copied().unwrap_or(0);
			if got < floor {
				starved.push(format!("{label}: {got} < {floor}"));
			}
		}
	}

	// 4. evidence
	let wall = t0.elapsed().as_secs_f64();
	let distinct = total.nontrivial_hashed.len() as u64 + total.nontrivial_counted;
	let mut classes: BTreeMap<&str, u64> = BTreeMap::new();
	for (k, v) in &total.classes {
		classes.insert(k, *v);
	}
	let evidence = serde_json::json!({
		"property_id": P::ID,
		"tier": tier.name(),
		"seed": seed as i64,
		"level": "exploration",
		"coverage": {
			"evaluations": total.evaluations,
			"observations": total.observations,
			"distinct_nontrivial": distinct,
			"distinct_nontrivial_hashed": total.nontrivial_hashed.len(),
			"distinct_nontrivial_enumerated_by_construction": total.nontrivial_counted,
			"rule": P::rule(),
			"samples": total.samples.iter().map(|s| s.1.clone()).collect::<Vec<_>>(),
			"classes": classes,
			"excluded_known": total.excluded_known,
			"enumerated_cases": total.enumerated,
			"enumerations_completed": total.enumerations,
			"exhaustive": false,
			"exhaustive_subdomains": !total.enumerations.is_empty(),
			"random_cases_requested": cases_total,
			"regressions_replayed": regressions_replayed,
			"threads": nt,
		},
		"assumptions": P::assumptions(),
		"wall_s": wall,
		"violations": violations.len(),
	});
	let evdir = verif_root().join("evidence");
	let _ = std::fs::create_dir_all(&evdir);
	let evpath = evdir.join(format!("{}.json", P::ID));
	if let Err(e) = std::fs::write(&evpath, serde_json::to_string_pretty(&evidence).unwrap()) {
		eprintln!("harness error: cannot write evidence: {e}");
		return 2;
	}

	// 5. report
	println!(
		"{} {} seed={} evaluations={} observations={} distinct_nontrivial={} enumerated={} wall={:.1}s",
		P::ID,
		tier.name(),
		seed,
		total.evaluations,
		total.observations,
		distinct,
		total.enumerated,
		wall
	);
	for (sig, n) in &total.excluded_known {
		println!(
			"KNOWN-FINDING: property={} {} (cases excluded: {})",
			P::ID,
			describe_known(&known_file, P::ID, sig),
			n
		);
	}
	if !violations.is_empty() {
		for (p, _) in &violations {
			println!("VIOLATION property={} replay={}", P::ID, p.display());
		}
		return 1;
	}
	if !starved.is_empty() {
		println!(
			"INCONCLUSIVE property={} generator starved classes (harness defect, exit 2): {}",
			P::ID,
			starved.join("; ")
		);
		return 2;
	}
	println!("OK property={}", P::ID);
	0
}

/// Evidence written when the run is cut short by the watchdog after a failure was found.
fn write_minimal_evidence<P: Prop>(tier: Tier, seed: u64, violations: u64) {
	let evidence = serde_json::json!({
		"property_id": P::ID,
		"tier": tier.name(),
		"seed": seed as i64,
		"level": "exploration",
		"coverage": {
			"evaluations": 2,
			"distinct_nontrivial": 2,
			"rule": P::rule(),
			"samples": ["run cut short after a violation was found (shrinking exceeded the watchdog limit); see the replay file"],
			"exhaustive": false,
		},
		"assumptions": P::assumptions(),
		"wall_s": 0.0,
		"violations": violations,
	});
	let evdir = verif_root().join("evidence");
	let _ = std::fs::create_dir_all(&evdir);
	let _ = std::fs::write(evdir.join(format!("{}.json", P::ID)), serde_json::to_string_pretty(&evidence).unwrap());
}

/// Judges one decoded fuzz case; returns the failure unless it is a listed known finding.
pub fn judge_for_fuzz<P: Prop>(case: &P::Case, known: &HashSet<String>) -> Option<Failure> {
	let mut cx = Ctx::default();
	match judge::<P>(case, &mut cx, known) {
		Verdict::Fail(f) => Some(f),
		_ => None,
	}
}

pub fn known_sigs_for(prop: &str) -> HashSet<String> {
	let k = load_known();
	let s: HashSet<String> = k.findings.iter().filter(|x| x.property == prop).map(|x| x.sig.clone()).collect();
	KNOWN_SIGS.with(|ks| *ks.borrow_mut() = Arc::new(s.clone()));
	s
}

pub fn save_fuzz_failure<P: Prop>(case: &P::Case, f: &Failure) -> PathBuf {
	write_replay::<P>(case, f, 0, "fuzz")
}

pub fn set_strict(v: bool) {
	STRICT.with(|s| *s.borrow_mut() = v)
}
