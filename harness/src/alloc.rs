//! Counting global allocator: the counter is thread-local and only armed
//! around the call under test (C20).

use std::alloc::{GlobalAlloc, Layout, System};
use std::cell::Cell;

thread_local! {
	static ARMED: Cell<bool> = const { Cell::new(false) };
	static COUNT: Cell<u64> = const { Cell::new(0) };
	static BYTES: Cell<u64> = const { Cell::new(0) };
}

pub struct Counting;

#[inline]
fn note(size: usize) {
	let _ = ARMED.try_with(|a| {
		if a.get() {
			let _ = COUNT.try_with(|c| c.set(c.get() + 1));
			let _ = BYTES.try_with(|c| c.set(c.get() + size as u64));
		}
	});
}

unsafe impl GlobalAlloc for Counting {
	unsafe fn alloc(&self, layout: Layout) -> *mut u8 {
		note(layout.size());
		System.alloc(layout)
	}
	unsafe fn dealloc(&self, ptr: *mut u8, layout: Layout) {
		System.dealloc(ptr, layout)
	}
	unsafe fn alloc_zeroed(&self, layout: Layout) -> *mut u8 {
		note(layout.size());
		System.alloc_zeroed(layout)
	}
	unsafe fn realloc(&self, ptr: *mut u8, layout: Layout, new_size: usize) -> *mut u8 {
		note(new_size);
		System.realloc(ptr, layout, new_size)
	}
}

#[global_allocator]
static GLOBAL: Counting = Counting;

/// Runs `f` with the counter armed; returns (result, allocations, bytes).
pub fn counted<T>(f: impl FnOnce() -> T) -> (T, u64, u64) {
	COUNT.with(|c| c.set(0));
	BYTES.with(|c| c.set(0));
	ARMED.with(|a| a.set(true));
	let r = f();
	ARMED.with(|a| a.set(false));
	(r, COUNT.with(|c| c.get()), BYTES.with(|c| c.get()))
}

/// Self-check: the counter sees an allocation and ignores what happens outside.
pub fn self_check() -> Result<(), String> {
	let (_, n, _) = counted(|| {
		let v: Vec<u8> = Vec::with_capacity(100);
		std::hint::black_box(&v);
	});
	if n == 0 {
		return Err("allocation counter does not see a Vec allocation".into());
	}
	let (_, n, _) = counted(|| {
		let x = [1u8; 64];
		std::hint::black_box(&x);
	});
	if n != 0 {
		return Err("allocation counter counts without an allocation".into());
	}
	Ok(())
}
