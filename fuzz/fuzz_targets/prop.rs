#![no_main]
//! One libFuzzer target serving every property: the property is chosen by the
//! environment variable VERIF_FUZZ_PROP; the input bytes drive the SAME proptest
//! strategy as the quick tier through proptest's pass-through RNG, the decoded
//! case is judged by the same `check` function, known findings are tolerated
//! through the same matcher, and a failure is saved as the usual replay JSON
//! before the target aborts.
use libfuzzer_sys::fuzz_target;
use std::sync::OnceLock;

static PROP: OnceLock<String> = OnceLock::new();

fuzz_target!(|data: &[u8]| {
	let prop = PROP.get_or_init(|| std::env::var("VERIF_FUZZ_PROP").unwrap_or_else(|_| "C01".into()));
	if let Some(path) = iref_verif::fuzz_one(prop, data) {
		eprintln!("VERIF-FUZZ-FAILURE property={} replay={}", prop, path);
		std::process::abort();
	}
});
