#!/bin/bash
# Coverage-guided tier: ./fuzz/run.sh <Cxx> [seconds]
# Drives the SAME case types and check functions as the quick tier through libFuzzer: the bytes are
# decoded by the hand-written decoders of harness/src/fuzzdec.rs. Time box expiring = exit 0.
set -u
ROOT="$(cd "$(dirname "${BASH_SOURCE[0]}")/.." && pwd)"
id="$1"; secs="${2:-${VERIF_FUZZ_SECONDS:-90}}"
case "$id" in C01|C02|C03|C04|C05|C06|C07|C08|C09|C10|C11|C12|C13|C14|C15|C16|C18|C19|C20) ;; *) exit 0 ;; esac
export VERIF_ROOT="$ROOT" CARGO_NET_OFFLINE=true
export CARGO_TARGET_DIR="$ROOT/.cache/fuzz-target"
seed="${VERIF_SEED:-0}"; [ "$seed" = "0" ] && seed=1
log="$ROOT/.cache/fuzz-$id.log"
( cd "$ROOT/fuzz" && cargo +nightly fuzz build --fuzz-dir "$ROOT/fuzz" prop >"$ROOT/.cache/fuzz-build.log" 2>&1 ) || { tail -20 "$ROOT/.cache/fuzz-build.log"; echo "INCONCLUSIVE property=$id fuzz target does not build (exit 2)"; exit 2; }
corpus="$ROOT/.cache/fuzz-corpus-$id"; rm -rf "$corpus"; mkdir -p "$corpus" "$ROOT/.cache/fuzz-artifacts"
# seed corpus: golden inputs from the repository's tests / RFC examples in the wire format of this
# property, plus random files (the two kinds of start differ a lot in what a campaign reaches)
"$ROOT/.cache/target/release/iref-verif" fuzz-seeds "$id" "$corpus" 2>/dev/null
python3 - "$corpus" "$seed" <<'PY'
import sys, random
d, seed = sys.argv[1], int(sys.argv[2])
r = random.Random(seed)
alphabet = b":/?#[]@%.0123456789abcdefABCDEFxyz-_~!$&'()*+,;=\x00\x00\x01\xc3\xa9\xe8\xaa\x9e"
for i in range(48):
    n = r.choice([8, 24, 64, 200, 600])
    open(f"{d}/rnd{i:03d}", "wb").write(bytes(r.choice(alphabet) for _ in range(n)))
PY
cat > "$ROOT/.cache/fuzz.dict" <<'DICT'
"://"
"//"
"/./"
"/../"
"./"
"../"
"%2E"
"%2e%2E"
"%2F"
"%C3%A9"
"%FF"
"%C0%AF"
"[::1]"
"[v1.a]"
"[1:2:3:4:5:6:7:8]"
"1.2.3.4"
"@"
":80"
"?"
"#"
"data:"
";base64,"
"\x00"
"\x01"
"http:"
"a:b"
DICT
bin="$CARGO_TARGET_DIR/x86_64-unknown-linux-gnu/release/prop"
cd "$ROOT/.cache" || exit 2   # libFuzzer writes its per-job logs to the cwd
VERIF_FUZZ_PROP="$id" "$bin" "$corpus" -artifact_prefix="$ROOT/.cache/fuzz-artifacts/$id-" -max_total_time="$secs" -seed="$seed" -len_control=0 -max_len=2048 -dict="$ROOT/.cache/fuzz.dict" -timeout=60 -rss_limit_mb=4096 -jobs=8 -workers=8 >"$log" 2>&1
rc=$?
# per-job logs are written to the cwd by libFuzzer (-jobs); collect them
rm -f fuzz-[0-9]*.log   # the master process has already copied each job log into $log
[ -s "$log" ] || { echo "INCONCLUSIVE property=$id fuzz campaign left no log (exit 2)"; exit 2; }
# record the campaign in the evidence file written by the proptest part of the thorough run
python3 - "$ROOT/evidence/$id.json" "$secs" "$seed" "$log" <<'PY'
import json, re, sys
path, secs, seed, log = sys.argv[1:5]
try:
    ev = json.load(open(path))
except Exception:
    sys.exit(0)
txt = open(log, errors="replace").read()
execs = sum(int(x) for x in re.findall(r"stat::number_of_executed_units: (\d+)", txt))
if execs == 0:
    m = re.findall(r"#(\d+)\s+DONE", txt)
    execs = sum(int(x) for x in m)
cov = re.findall(r"cov: (\d+)", txt)
ev["coverage"]["fuzz"] = {"engine": "libFuzzer (cargo-fuzz, ASan); bytes decoded by hand-written decoders (harness/src/fuzzdec.rs) into the same case types, judged by the same check functions", "seconds": int(secs), "seed": int(seed), "executions": execs, "max_cov_edges": max([int(c) for c in cov] or [0]), "failures": len(re.findall("VERIF-FUZZ-FAILURE", txt))}
json.dump(ev, open(path, "w"), indent=1)
PY
fail=$(grep -m1 "VERIF-FUZZ-FAILURE" "$log")
if [ -n "$fail" ]; then
	replay=$(echo "$fail" | sed -E 's/.*replay=//')
	grep -m1 "fuzz failure:" "$log" | cut -c1-600
	echo "VIOLATION property=$id replay=$replay"
	exit 1
fi
if grep -q "ERROR: AddressSanitizer\|ERROR: libFuzzer: deadly signal" "$log"; then
	art=$(ls -t "$ROOT/.cache/fuzz-artifacts/$id-"* 2>/dev/null | head -1)
	grep -m3 "ERROR: " "$log"
	echo "VIOLATION property=$id replay=$art"
	exit 1
fi
if grep -q "ERROR: libFuzzer: timeout\|out-of-memory" "$log"; then
	echo "INCONCLUSIVE property=$id fuzz campaign hit a timeout / memory limit (exit 2); log $log"
	exit 2
fi
grep -q "stat::number_of_executed_units: [1-9]\|DONE" "$log" || { echo "INCONCLUSIVE property=$id fuzz campaign executed nothing (exit 2); log $log"; exit 2; }
echo "fuzz $id: ${secs}s campaign finished, no failure (log $log)"
exit 0
